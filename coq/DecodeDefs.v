(* M2: executable model of decode.c (b64_pton, base64_decode, quoted-printable, RFC 2047).
   No proofs in this file: it must extract and run even when a proof breaks. *)
From MD Require Import Bytes Generated.
Local Open Scope N_scope.

Fixpoint index_of (c : N) (l : list N) : option N :=
  match l with
  | [] => None
  | x :: r => if x =? c then Some 0
              else match index_of c r with Some i => Some (N.succ i) | None => None end
  end.

(* strchr(Base64, ch) - Base64, for ch <> NUL *)
Definition b64val (c : N) : option N := index_of c base64_alphabet.

(* ---- b64_pton ------------------------------------------------------------------ *)
(* rout = target[0..tarindex) reversed, cur = target[tarindex] (partially filled byte). *)
Inductive loopres :=
| LErr                                   (* return -1 for a property of the input *)
| LBound                                 (* return -1 because tarindex >= targsize (or slop) *)
| LEnd (state : nat) (rout : bytes) (cur : N)
| LPad (rest : bytes) (state : nat) (rout : bytes) (cur : N).

Fixpoint pton_loop (targsize : nat) (s : bytes) (state : nat) (rout : bytes) (cur : N)
  : loopres :=
  match s with
  | [] => LEnd state rout cur
  | ch :: r =>
      if isspace ch then pton_loop targsize r state rout cur
      else if ch =? pad64 then LPad r state rout cur
      else match b64val ch with
           | None => LErr
           | Some v =>
               if negb (Nat.ltb (length rout) targsize) then LBound else
               match state with
               | O => pton_loop targsize r 1%nat rout (N.shiftl v 2)
               | 1%nat =>
                   let b := N.lor cur (N.shiftr v 4) in
                   let nextbyte := N.shiftl (N.land v 15) 4 in
                   if Nat.ltb (S (length rout)) targsize
                   then pton_loop targsize r 2%nat (b :: rout) nextbyte
                   else if negb (nextbyte =? 0) then LBound
                        else pton_loop targsize r 2%nat (b :: rout) 0
               | 2%nat =>
                   let b := N.lor cur (N.shiftr v 2) in
                   let nextbyte := N.shiftl (N.land v 3) 6 in
                   if Nat.ltb (S (length rout)) targsize
                   then pton_loop targsize r 3%nat (b :: rout) nextbyte
                   else if negb (nextbyte =? 0) then LBound
                        else pton_loop targsize r 3%nat (b :: rout) 0
               | _ =>
                   let b := N.lor cur v in
                   pton_loop targsize r O (b :: rout) 0
               end
           end
  end.

Inductive b64res := B64Ok (out : bytes) | B64Err | B64Bound.

Fixpoint skip_spaces (s : bytes) : bytes :=
  match s with
  | c :: r => if isspace c then skip_spaces r else s
  | [] => []
  end.

Definition all_spaces (s : bytes) : bool := forallb isspace s.

(* "case 3" tail: only white space may follow, then the slop bits must be zero *)
Definition pton_tail (targsize : nat) (rest : bytes) (rout : bytes) (cur : N) : b64res :=
  if negb (all_spaces rest) then B64Err
  else if Nat.ltb (length rout) targsize && negb (cur =? 0) then B64Err
  else B64Ok (rev rout).

Definition b64_pton (targsize : nat) (s : bytes) : b64res :=
  match pton_loop targsize s O [] 0 with
  | LErr => B64Err
  | LBound => B64Bound
  | LEnd state rout _ => match state with O => B64Ok (rev rout) | _ => B64Err end
  | LPad rest state rout cur =>
      match state with
      | O | 1%nat => B64Err
      | 2%nat =>
          match skip_spaces rest with
          | ch :: r2 => if ch =? pad64 then pton_tail targsize r2 rout cur else B64Err
          | [] => B64Err
          end
      | _ => pton_tail targsize rest rout cur
      end
  end.

(* base64_decode: target size strlen+1; None = NULL.  The caller sees [cview] of the bytes. *)
Definition base64_decode_raw (s : bytes) : b64res := b64_pton (S (length s)) s.
Definition base64_decode (s : bytes) : option bytes :=
  match base64_decode_raw s with B64Ok o => Some o | _ => None end.

(* ---- quoted printable ---------------------------------------------------------- *)
Definition htoa (c : N) : option N :=
  if (65 <=? c) && (c <=? 70) then Some (10 + (c - 65))
  else if (48 <=? c) && (c <=? 57) then Some (c - 48)
  else None.

(* quoted_printable_decode_buffer(bf, str, len, dospace): s is exactly str[0..len) *)
Fixpoint qp_decode (dospace : bool) (s : bytes) : bytes :=
  match s with
  | [] => []
  | c :: r =>
      if dospace && (c =? 95) then 32 :: qp_decode dospace r
      else if negb (c =? 61) then c :: qp_decode dospace r
      else match r with
           | [] => [61]                                   (* '=' followed by nothing *)
           | d :: r' =>
               if d =? 10 then qp_decode dospace r'        (* soft line break *)
               else match r' with
                    | [] => 61 :: qp_decode dospace r      (* too few characters *)
                    | e :: r'' =>
                        match htoa d, htoa e with
                        | Some h, Some l => N.lor (N.shiftl h 4) l :: qp_decode dospace r''
                        | _, _ => 61 :: qp_decode dospace r
                        end
                    end
           end
  end.

Definition quoted_printable_decode (s : bytes) : bytes := qp_decode false s.

(* ---- RFC 2047 ------------------------------------------------------------------- *)
Definition q_eqmark : bytes := [61; 63].   (* "=?" *)
Definition q_markeq : bytes := [63; 61].   (* "?=" *)

(* after an encoded word: drop white space iff it is directly followed by "=?" *)
Definition skip_ws_before_word (es : bytes) : bytes :=
  match find_sub q_eqmark es with
  | Some (before, _) => if all_spaces before then skipn (length before) es else es
  | None => es
  end.

(* One encoded word starting right after "=?" : Some (decoded, rest after "?=") or None = goto err *)
Definition r2047_word (es : bytes) : option (bytes * bytes) :=
  match split_at 63 es with                    (* strchr(es, '?') *)
  | (_, None) => None
  | (_, Some es1) =>
      match es1 with
      | [] => None                             (* *es == '\0' *)
      | enc :: es2 =>
          match es2 with
          | q :: es3 =>
              if negb (q =? 63) then None else
              match find_sub q_markeq es3 with   (* strstr(es, "?=") *)
              | None => None
              | Some (txt, rest) =>
                  let u := toupper enc in
                  if u =? 66 then
                    match base64_decode txt with
                    | Some d => Some (cview d, rest)       (* buffer_printf("%s", dst) *)
                    | None => None
                    end
                  else if u =? 81 then Some (qp_decode true txt, rest)
                  else None
              end
          | [] => None
          end
      end
  end.

Fixpoint r2047_loop (fuel : nat) (es : bytes) : option (option bytes) :=
  (* None = out of fuel; Some None = goto err; Some (Some out) *)
  match fuel with
  | O => None
  | S f =>
      match es with
      | [] => Some (Some [])
      | c :: r =>
          if prefixb q_eqmark es then
            match r2047_word (skipn 2 es) with
            | None => Some None
            | Some (dec, rest) =>
                match r2047_loop f (skip_ws_before_word rest) with
                | Some (Some o) => Some (Some (dec ++ o))
                | x => x
                end
            end
          else match r2047_loop f r with
               | Some (Some o) => Some (Some (c :: o))
               | x => x
               end
      end
  end.

(* rfc2047_decode: the returned buffer; the caller sees [cview] of it. *)
Definition rfc2047_decode (s : bytes) : bytes :=
  match r2047_loop (S (length s)) s with
  | Some (Some o) => o
  | _ => s
  end.
