/* libvfio.so - LD_PRELOAD interposer for mdsort (no source change needed).
 *
 * Active only in a process whose program name is "mdsort".  Every intercepted libc call is
 * numbered (k = 1, 2, ...), logged to $VFIO_LOG and may be faulted according to $VFIO_PLAN:
 *
 *   VFIO_PLAN = directive[,directive...]
 *     k:errno=ENAME   call k fails with that errno and has no effect (close/fclose: the descriptor is
 *                     released and then the error is returned, as POSIX allows)
 *     k:short=n       call k (read/write) really transfers only n bytes and returns n
 *     k:kill          SIGKILL is raised instead of performing call k
 *     k:run=CMD       CMD is run to completion (sh -c, without LD_PRELOAD) before call k
 *   VFIO_XDEV=1       renameat between two different directories fails with EXDEV
 *   VFIO_DTUNKNOWN=1  readdir reports d_type DT_UNKNOWN for every entry (XFS without ftype, some NFS)
 *   VFIO_TIME, VFIO_PID, VFIO_HOST, VFIO_RANDOM   pin time(), getpid(), gethostname(), arc4random()
 *   VFIO_ROOT         path prefix stripped from logged paths
 *
 * Log line:  <k> <call> <args...> = <result>[ <errno name>]
 */
#define _GNU_SOURCE
#include <dirent.h>
#include <dlfcn.h>
#include <errno.h>
#include <fcntl.h>
#include <signal.h>
#include <stdarg.h>
#include <stdio.h>
#include <stdlib.h>
#include <string.h>
#include <sys/stat.h>
#include <sys/types.h>
#include <sys/wait.h>
#include <time.h>
#include <unistd.h>

static int active = -1;
static int logfd = -1;
static long counter = 0;
static const char *root = NULL;
static size_t rootlen = 0;
static int busy = 0;

#define REAL(name) static __typeof__(name) *real_##name; if (!real_##name) real_##name = dlsym(RTLD_NEXT, #name)

static struct { const char *name; int val; } errtab[] = {
	{ "ENOSPC", ENOSPC }, { "EIO", EIO }, { "EACCES", EACCES }, { "ENOENT", ENOENT }, { "EEXIST", EEXIST },
	{ "EMFILE", EMFILE }, { "ENOMEM", ENOMEM }, { "EINTR", EINTR }, { "EDQUOT", EDQUOT }, { "EPERM", EPERM },
	{ "EXDEV", EXDEV }, { "EAGAIN", EAGAIN }, { "ENOTDIR", ENOTDIR }, { "EISDIR", EISDIR }, { "EBADF", EBADF },
	{ "ECHILD", ECHILD }, { "EROFS", EROFS }, { "ENAMETOOLONG", ENAMETOOLONG }, { "ENOTEMPTY", ENOTEMPTY },
	{ NULL, 0 }
};

static const char *errname(int e) {
	int i;
	static char buf[16];
	for (i = 0; errtab[i].name; i++) if (errtab[i].val == e) return errtab[i].name;
	snprintf(buf, sizeof buf, "E%d", e);
	return buf;
}
static int errval(const char *s) {
	int i;
	for (i = 0; errtab[i].name; i++) if (strcmp(errtab[i].name, s) == 0) return errtab[i].val;
	return EIO;
}

static void init(void) {
	const char *p;
	char exe[4096];
	ssize_t n;
	if (active != -1) return;
	active = 0;
	n = readlink("/proc/self/exe", exe, sizeof exe - 1);
	if (n <= 0) return;
	exe[n] = '\0';
	p = strrchr(exe, '/');
	p = p ? p + 1 : exe;
	if (strcmp(p, "mdsort") != 0) return;
	p = getenv("VFIO_LOG");
	if (p != NULL) {
		REAL(open);
		logfd = real_open(p, O_WRONLY | O_CREAT | O_APPEND | O_CLOEXEC, 0600);
		if (logfd >= 0 && logfd < 100) {           /* keep it out of the way of mdsort's descriptors */
			int nfd = fcntl(logfd, F_DUPFD_CLOEXEC, 200);
			if (nfd >= 0) { REAL(close); real_close(logfd); logfd = nfd; }
		}
	}
	root = getenv("VFIO_ROOT");
	rootlen = root ? strlen(root) : 0;
	active = 1;
}

static void logline(const char *fmt, ...) {
	char buf[8192];
	va_list ap;
	int n;
	REAL(write);
	if (logfd < 0) return;
	va_start(ap, fmt);
	n = vsnprintf(buf, sizeof buf - 1, fmt, ap);
	va_end(ap);
	if (n < 0) return;
	if ((size_t)n > sizeof buf - 2) n = sizeof buf - 2;
	buf[n++] = '\n';
	real_write(logfd, buf, (size_t)n);
}

static const char *rel(const char *path, char *out, size_t outsiz) {
	if (path == NULL) return "(null)";
	if (rootlen && strncmp(path, root, rootlen) == 0) {
		const char *q = path + rootlen;
		while (*q == '/') q++;
		snprintf(out, outsiz, "@/%s", q);
		return out;
	}
	/* copy: callers pass buffers that do not outlive them (fdname) */
	snprintf(out, outsiz, "%s", path);
	return out;
}

/* the path a descriptor refers to, relative to the root */
static const char *fdname(int fd, char *out, size_t outsiz) {
	char link[64], target[4096];
	ssize_t n;
	if (fd == AT_FDCWD) return "CWD";
	snprintf(link, sizeof link, "/proc/self/fd/%d", fd);
	n = readlink(link, target, sizeof target - 1);
	if (n <= 0) { snprintf(out, outsiz, "fd%d", fd); return out; }
	target[n] = '\0';
	{
		char *del = strstr(target, " (deleted)");
		if (del) *del = '\0';
	}
	return rel(target, out, outsiz);
}

/* what to do with call k */
enum act { A_NONE, A_ERRNO, A_SHORT, A_KILL };
struct plan { enum act act; int err; long n; };

static struct plan consult(long k) {
	struct plan pl = { A_NONE, 0, 0 };
	const char *p = getenv("VFIO_PLAN");
	char key[32];
	size_t kl;
	if (p == NULL) return pl;
	snprintf(key, sizeof key, "%ld:", k);
	kl = strlen(key);
	while (*p) {
		const char *end = strchr(p, ',');
		size_t len = end ? (size_t)(end - p) : strlen(p);
		if (len > kl && strncmp(p, key, kl) == 0) {
			char d[1024];
			size_t dl = len - kl;
			if (dl >= sizeof d) dl = sizeof d - 1;
			memcpy(d, p + kl, dl);
			d[dl] = '\0';
			if (strncmp(d, "errno=", 6) == 0) { pl.act = A_ERRNO; pl.err = errval(d + 6); }
			else if (strncmp(d, "short=", 6) == 0) { pl.act = A_SHORT; pl.n = atol(d + 6); }
			else if (strcmp(d, "kill") == 0) { pl.act = A_KILL; }
			else if (strncmp(d, "run=", 4) == 0) {
				char cmd[1200];
				snprintf(cmd, sizeof cmd, "unset LD_PRELOAD; %s", d + 4);
				busy++;
				if (system(cmd) == -1) { /* ignore */ }
				busy--;
			}
		}
		if (!end) break;
		p = end + 1;
	}
	if (pl.act == A_KILL) {
		logline("%ld KILLED", k);
		raise(SIGKILL);
	}
	return pl;
}

#define ENTER() (init(), active == 1 && !busy)
#define RES(fmt, ...) logline(fmt, __VA_ARGS__)

/* ------------------------------------------------------------------------------------------ */
int openat(int dirfd, const char *path, int flags, ...) {
	mode_t mode = 0;
	REAL(openat);
	if (flags & (O_CREAT | O_TMPFILE)) { va_list ap; va_start(ap, flags); mode = va_arg(ap, mode_t); va_end(ap); }
	if (!ENTER()) return real_openat(dirfd, path, flags, mode);
	{
		long k = ++counter; struct plan pl = consult(k); char b1[4200], b2[4200]; int r, e;
		const char *dn = fdname(dirfd, b1, sizeof b1);
		if (pl.act == A_ERRNO) { r = -1; errno = pl.err; } else r = real_openat(dirfd, path, flags, mode);
		e = errno;
		RES("%ld openat %s %s %s%s%s%s = %s%s%s", k, dn, rel(path, b2, sizeof b2),
		    (flags & O_ACCMODE) == O_RDONLY ? "RDONLY" : (flags & O_ACCMODE) == O_WRONLY ? "WRONLY" : "RDWR",
		    flags & O_CREAT ? "|CREAT" : "", flags & O_EXCL ? "|EXCL" : "", flags & O_CLOEXEC ? "|CLOEXEC" : "",
		    r >= 0 ? "ok" : "-1", r >= 0 ? "" : " ", r >= 0 ? "" : errname(e));
		errno = e; return r;
	}
}

int open(const char *path, int flags, ...) {
	mode_t mode = 0;
	REAL(open);
	if (flags & (O_CREAT | O_TMPFILE)) { va_list ap; va_start(ap, flags); mode = va_arg(ap, mode_t); va_end(ap); }
	if (!ENTER()) return real_open(path, flags, mode);
	{
		long k = ++counter; struct plan pl = consult(k); char b2[4200]; int r, e;
		if (pl.act == A_ERRNO) { r = -1; errno = pl.err; } else r = real_open(path, flags, mode);
		e = errno;
		RES("%ld open %s %s%s%s%s = %s%s%s", k, rel(path, b2, sizeof b2),
		    (flags & O_ACCMODE) == O_RDONLY ? "RDONLY" : (flags & O_ACCMODE) == O_WRONLY ? "WRONLY" : "RDWR",
		    flags & O_CREAT ? "|CREAT" : "", flags & O_EXCL ? "|EXCL" : "", flags & O_CLOEXEC ? "|CLOEXEC" : "",
		    r >= 0 ? "ok" : "-1", r >= 0 ? "" : " ", r >= 0 ? "" : errname(e));
		errno = e; return r;
	}
}

ssize_t read(int fd, void *buf, size_t n) {
	REAL(read);
	if (!ENTER()) return real_read(fd, buf, n);
	{
		long k = ++counter; struct plan pl = consult(k); char b1[4200]; ssize_t r; int e;
		const char *fn = fdname(fd, b1, sizeof b1);
		if (pl.act == A_ERRNO) { r = -1; errno = pl.err; }
		else if (pl.act == A_SHORT) r = real_read(fd, buf, (size_t)pl.n < n ? (size_t)pl.n : n);
		else r = real_read(fd, buf, n);
		e = errno;
		RES("%ld read %s = %zd%s%s", k, fn, r, r >= 0 ? "" : " ", r >= 0 ? "" : errname(e));
		errno = e; return r;
	}
}

ssize_t write(int fd, const void *buf, size_t n) {
	REAL(write);
	if (!ENTER() || fd == 1 || fd == 2 || fd == logfd) return real_write(fd, buf, n);
	{
		long k = ++counter; struct plan pl = consult(k); char b1[4200]; ssize_t r; int e;
		const char *fn = fdname(fd, b1, sizeof b1);
		if (pl.act == A_ERRNO) { r = -1; errno = pl.err; }
		else if (pl.act == A_SHORT) r = real_write(fd, buf, (size_t)pl.n < n ? (size_t)pl.n : n);
		else r = real_write(fd, buf, n);
		e = errno;
		RES("%ld write %s %zu = %zd%s%s", k, fn, n, r, r >= 0 ? "" : " ", r >= 0 ? "" : errname(e));
		errno = e; return r;
	}
}

int fsync(int fd) {
	REAL(fsync);
	if (!ENTER()) return real_fsync(fd);
	{
		long k = ++counter; struct plan pl = consult(k); char b1[4200]; int r, e;
		const char *fn = fdname(fd, b1, sizeof b1);
		if (pl.act == A_ERRNO) { r = -1; errno = pl.err; } else r = real_fsync(fd);
		e = errno;
		RES("%ld fsync %s = %d%s%s", k, fn, r, r >= 0 ? "" : " ", r >= 0 ? "" : errname(e));
		errno = e; return r;
	}
}

int close(int fd) {
	REAL(close);
	if (!ENTER() || fd == logfd) return real_close(fd);
	{
		long k = ++counter; struct plan pl = consult(k); char b1[4200]; int r, e;
		const char *fn = fdname(fd, b1, sizeof b1);
		r = real_close(fd);
		if (pl.act == A_ERRNO) { r = -1; errno = pl.err; }
		e = errno;
		RES("%ld close %s = %d%s%s", k, fn, r, r >= 0 ? "" : " ", r >= 0 ? "" : errname(e));
		errno = e; return r;
	}
}

int renameat(int ofd, const char *o, int nfd, const char *n) {
	REAL(renameat);
	if (!ENTER()) return real_renameat(ofd, o, nfd, n);
	{
		long k = ++counter; struct plan pl = consult(k); char b1[4200], b2[4200]; int r, e;
		const char *on = fdname(ofd, b1, sizeof b1), *nn = fdname(nfd, b2, sizeof b2);
		if (pl.act == A_ERRNO) { r = -1; errno = pl.err; }
		else if (getenv("VFIO_XDEV") && *getenv("VFIO_XDEV") && strcmp(on, nn) != 0 &&
		    (strncmp(getenv("VFIO_XDEV"), "name:", 5) != 0 || strstr(o, getenv("VFIO_XDEV") + 5) != NULL)) { r = -1; errno = EXDEV; }   /* "name:S": only renames of files whose name contains S */
		else r = real_renameat(ofd, o, nfd, n);
		e = errno;
		RES("%ld renameat %s/%s %s/%s = %d%s%s", k, on, o, nn, n, r, r >= 0 ? "" : " ", r >= 0 ? "" : errname(e));
		errno = e; return r;
	}
}

int unlinkat(int dfd, const char *p, int flags) {
	REAL(unlinkat);
	if (!ENTER()) return real_unlinkat(dfd, p, flags);
	{
		long k = ++counter; struct plan pl = consult(k); char b1[4200]; int r, e;
		const char *dn = fdname(dfd, b1, sizeof b1);
		if (pl.act == A_ERRNO) { r = -1; errno = pl.err; } else r = real_unlinkat(dfd, p, flags);
		e = errno;
		RES("%ld unlinkat %s/%s = %d%s%s", k, dn, p, r, r >= 0 ? "" : " ", r >= 0 ? "" : errname(e));
		errno = e; return r;
	}
}

int unlink(const char *p) {
	REAL(unlink);
	if (!ENTER()) return real_unlink(p);
	{
		long k = ++counter; struct plan pl = consult(k); char b1[4200]; int r, e;
		if (pl.act == A_ERRNO) { r = -1; errno = pl.err; } else r = real_unlink(p);
		e = errno;
		RES("%ld unlink %s = %d%s%s", k, rel(p, b1, sizeof b1), r, r >= 0 ? "" : " ", r >= 0 ? "" : errname(e));
		errno = e; return r;
	}
}

int mkdir(const char *p, mode_t m) {
	REAL(mkdir);
	if (!ENTER()) return real_mkdir(p, m);
	{
		long k = ++counter; struct plan pl = consult(k); char b1[4200]; int r, e;
		if (pl.act == A_ERRNO) { r = -1; errno = pl.err; } else r = real_mkdir(p, m);
		e = errno;
		RES("%ld mkdir %s = %d%s%s", k, rel(p, b1, sizeof b1), r, r >= 0 ? "" : " ", r >= 0 ? "" : errname(e));
		errno = e; return r;
	}
}

int rmdir(const char *p) {
	REAL(rmdir);
	if (!ENTER()) return real_rmdir(p);
	{
		long k = ++counter; struct plan pl = consult(k); char b1[4200]; int r, e;
		if (pl.act == A_ERRNO) { r = -1; errno = pl.err; } else r = real_rmdir(p);
		e = errno;
		RES("%ld rmdir %s = %d%s%s", k, rel(p, b1, sizeof b1), r, r >= 0 ? "" : " ", r >= 0 ? "" : errname(e));
		errno = e; return r;
	}
}

char *mkdtemp(char *t) {
	REAL(mkdtemp);
	if (!ENTER()) return real_mkdtemp(t);
	{
		long k = ++counter; struct plan pl = consult(k); char b1[4200]; char *r; int e;
		if (pl.act == A_ERRNO) { r = NULL; errno = pl.err; } else r = real_mkdtemp(t);
		e = errno;
		RES("%ld mkdtemp %s = %s%s%s", k, rel(t, b1, sizeof b1), r ? "ok" : "NULL", r ? "" : " ", r ? "" : errname(e));
		errno = e; return r;
	}
}

int mkstemp(char *t) {
	REAL(mkstemp);
	if (!ENTER()) return real_mkstemp(t);
	{
		long k = ++counter; struct plan pl = consult(k); char b1[4200]; int r, e;
		if (pl.act == A_ERRNO) { r = -1; errno = pl.err; } else r = real_mkstemp(t);
		e = errno;
		RES("%ld mkstemp %s = %s%s%s", k, rel(t, b1, sizeof b1), r >= 0 ? "ok" : "-1", r >= 0 ? "" : " ", r >= 0 ? "" : errname(e));
		errno = e; return r;
	}
}

int fstatat(int dfd, const char *p, struct stat *sb, int flags) {
	REAL(fstatat);
	if (!ENTER()) return real_fstatat(dfd, p, sb, flags);
	{
		long k = ++counter; struct plan pl = consult(k); char b1[4200], b2[4200]; int r, e;
		const char *dn = fdname(dfd, b1, sizeof b1);
		if (pl.act == A_ERRNO) { r = -1; errno = pl.err; } else r = real_fstatat(dfd, p, sb, flags);
		e = errno;
		RES("%ld fstatat %s %s = %d%s%s", k, dn, rel(p, b2, sizeof b2), r, r >= 0 ? "" : " ", r >= 0 ? "" : errname(e));
		errno = e; return r;
	}
}

int stat(const char *p, struct stat *sb) {
	REAL(stat);
	if (!ENTER()) return real_stat(p, sb);
	{
		long k = ++counter; struct plan pl = consult(k); char b1[4200]; int r, e;
		if (pl.act == A_ERRNO) { r = -1; errno = pl.err; } else r = real_stat(p, sb);
		e = errno;
		RES("%ld stat %s = %d%s%s", k, rel(p, b1, sizeof b1), r, r >= 0 ? "" : " ", r >= 0 ? "" : errname(e));
		errno = e; return r;
	}
}

int utimensat(int dfd, const char *p, const struct timespec ts[2], int flags) {
	REAL(utimensat);
	if (!ENTER()) return real_utimensat(dfd, p, ts, flags);
	{
		long k = ++counter; struct plan pl = consult(k); char b1[4200]; int r, e;
		const char *dn = fdname(dfd, b1, sizeof b1);
		if (pl.act == A_ERRNO) { r = -1; errno = pl.err; } else r = real_utimensat(dfd, p, ts, flags);
		e = errno;
		RES("%ld utimensat %s/%s = %d%s%s", k, dn, p, r, r >= 0 ? "" : " ", r >= 0 ? "" : errname(e));
		errno = e; return r;
	}
}

int fcntl(int fd, int cmd, ...) {
	va_list ap; long arg;
	REAL(fcntl);
	va_start(ap, cmd); arg = va_arg(ap, long); va_end(ap);
	if (!ENTER() || (cmd != F_DUPFD_CLOEXEC && cmd != F_DUPFD)) return real_fcntl(fd, cmd, arg);
	{
		long k = ++counter; struct plan pl = consult(k); char b1[4200]; int r, e;
		const char *fn = fdname(fd, b1, sizeof b1);
		if (pl.act == A_ERRNO) { r = -1; errno = pl.err; } else r = real_fcntl(fd, cmd, arg);
		e = errno;
		RES("%ld dup %s %s = %s%s%s", k, fn, cmd == F_DUPFD_CLOEXEC ? "CLOEXEC" : "NOCLOEXEC", r >= 0 ? "ok" : "-1", r >= 0 ? "" : " ", r >= 0 ? "" : errname(e));
		errno = e; return r;
	}
}

off_t lseek(int fd, off_t off, int wh) {
	REAL(lseek);
	if (!ENTER()) return real_lseek(fd, off, wh);
	{
		long k = ++counter; struct plan pl = consult(k); char b1[4200]; off_t r; int e;
		const char *fn = fdname(fd, b1, sizeof b1);
		if (pl.act == A_ERRNO) { r = -1; errno = pl.err; } else r = real_lseek(fd, off, wh);
		e = errno;
		RES("%ld lseek %s %ld = %ld%s%s", k, fn, (long)off, (long)r, r >= 0 ? "" : " ", r >= 0 ? "" : errname(e));
		errno = e; return r;
	}
}

FILE *fdopen(int fd, const char *mode) {
	REAL(fdopen);
	if (!ENTER()) return real_fdopen(fd, mode);
	{
		long k = ++counter; struct plan pl = consult(k); char b1[4200]; FILE *r; int e;
		const char *fn = fdname(fd, b1, sizeof b1);
		if (pl.act == A_ERRNO) { r = NULL; errno = pl.err; } else r = real_fdopen(fd, mode);
		e = errno;
		RES("%ld fdopen %s = %s%s%s", k, fn, r ? "ok" : "NULL", r ? "" : " ", r ? "" : errname(e));
		errno = e; return r;
	}
}

static int isstd(FILE *f) { return f == stdout || f == stderr || f == stdin; }

int vfprintf(FILE *f, const char *fmt, va_list ap) {
	REAL(vfprintf);
	if (!ENTER() || isstd(f)) return real_vfprintf(f, fmt, ap);
	{
		long k = ++counter; struct plan pl = consult(k); char b1[4200]; int r, e;
		const char *fn = fdname(fileno(f), b1, sizeof b1);
		if (pl.act == A_ERRNO) { r = -1; errno = pl.err; } else r = real_vfprintf(f, fmt, ap);
		e = errno;
		RES("%ld fprintf %s = %d%s%s", k, fn, r, r >= 0 ? "" : " ", r >= 0 ? "" : errname(e));
		errno = e; return r;
	}
}

int fprintf(FILE *f, const char *fmt, ...) {
	va_list ap; int r;
	va_start(ap, fmt); r = vfprintf(f, fmt, ap); va_end(ap);
	return r;
}

int __vfprintf_chk(FILE *f, int flag, const char *fmt, va_list ap) { (void)flag; return vfprintf(f, fmt, ap); }
int __fprintf_chk(FILE *f, int flag, const char *fmt, ...) {
	va_list ap; int r; (void)flag;
	va_start(ap, fmt); r = vfprintf(f, fmt, ap); va_end(ap);
	return r;
}

int fflush(FILE *f) {
	REAL(fflush);
	if (!ENTER() || f == NULL || isstd(f)) return real_fflush(f);
	{
		long k = ++counter; struct plan pl = consult(k); char b1[4200]; int r, e;
		const char *fn = fdname(fileno(f), b1, sizeof b1);
		if (pl.act == A_ERRNO) { r = EOF; errno = pl.err; } else r = real_fflush(f);
		e = errno;
		RES("%ld fflush %s = %d%s%s", k, fn, r, r == 0 ? "" : " ", r == 0 ? "" : errname(e));
		errno = e; return r;
	}
}

int fclose(FILE *f) {
	REAL(fclose);
	if (!ENTER() || isstd(f)) return real_fclose(f);
	{
		long k = ++counter; struct plan pl = consult(k); char b1[4200]; int r, e;
		const char *fn = fdname(fileno(f), b1, sizeof b1);
		char name[4200];
		snprintf(name, sizeof name, "%s", fn);
		r = real_fclose(f);
		if (pl.act == A_ERRNO) { r = EOF; errno = pl.err; }
		e = errno;
		RES("%ld fclose %s = %d%s%s", k, name, r, r == 0 ? "" : " ", r == 0 ? "" : errname(e));
		errno = e; return r;
	}
}

FILE *fopen(const char *p, const char *mode) {
	REAL(fopen);
	if (!ENTER()) return real_fopen(p, mode);
	{
		long k = ++counter; struct plan pl = consult(k); char b1[4200]; FILE *r; int e;
		if (pl.act == A_ERRNO) { r = NULL; errno = pl.err; } else r = real_fopen(p, mode);
		e = errno;
		RES("%ld fopen %s %s = %s%s%s", k, rel(p, b1, sizeof b1), mode, r ? "ok" : "NULL", r ? "" : " ", r ? "" : errname(e));
		errno = e; return r;
	}
}

DIR *opendir(const char *p) {
	REAL(opendir);
	if (!ENTER()) return real_opendir(p);
	{
		long k = ++counter; struct plan pl = consult(k); char b1[4200]; DIR *r; int e;
		if (pl.act == A_ERRNO) { r = NULL; errno = pl.err; } else r = real_opendir(p);
		e = errno;
		RES("%ld opendir %s = %s%s%s", k, rel(p, b1, sizeof b1), r ? "ok" : "NULL", r ? "" : " ", r ? "" : errname(e));
		errno = e; return r;
	}
}

struct dirent *readdir(DIR *d) {
	REAL(readdir);
	if (!ENTER()) return real_readdir(d);
	{
		long k = ++counter; struct plan pl = consult(k); char b1[4200]; struct dirent *r; int e;
		const char *dn = fdname(dirfd(d), b1, sizeof b1);
		if (pl.act == A_ERRNO) { r = NULL; errno = pl.err; } else r = real_readdir(d);
		e = errno;
		if (r && getenv("VFIO_DTUNKNOWN") && *getenv("VFIO_DTUNKNOWN")) r->d_type = DT_UNKNOWN;   /* a file system that does not report file types */
		if (r) RES("%ld readdir %s = %s", k, dn, r->d_name);
		else RES("%ld readdir %s = NULL%s%s", k, dn, pl.act == A_ERRNO ? " " : "", pl.act == A_ERRNO ? errname(e) : "");
		errno = e; return r;
	}
}

int closedir(DIR *d) {
	REAL(closedir);
	if (!ENTER()) return real_closedir(d);
	{
		long k = ++counter; struct plan pl = consult(k); char b1[4200]; int r, e;
		const char *dn = fdname(dirfd(d), b1, sizeof b1);
		char name[4200];
		snprintf(name, sizeof name, "%s", dn);
		r = real_closedir(d);
		if (pl.act == A_ERRNO) { r = -1; errno = pl.err; }
		e = errno;
		RES("%ld closedir %s = %d%s%s", k, name, r, r >= 0 ? "" : " ", r >= 0 ? "" : errname(e));
		errno = e; return r;
	}
}

pid_t fork(void) {
	REAL(fork);
	if (!ENTER()) return real_fork();
	{
		long k = ++counter; struct plan pl = consult(k); pid_t r; int e;
		if (pl.act == A_ERRNO) { r = -1; errno = pl.err; } else r = real_fork();
		if (r == 0) { active = 0; return 0; }           /* the child is not ours */
		e = errno;
		RES("%ld fork = %s%s%s", k, r > 0 ? "ok" : "-1", r > 0 ? "" : " ", r > 0 ? "" : errname(e));
		errno = e; return r;
	}
}

pid_t waitpid(pid_t pid, int *st, int opts) {
	REAL(waitpid);
	if (!ENTER()) return real_waitpid(pid, st, opts);
	{
		long k = ++counter; struct plan pl = consult(k); pid_t r; int e; int local = 0;
		if (st == NULL) st = &local;
		r = real_waitpid(pid, st, opts);                 /* always reap */
		if (pl.act == A_ERRNO) { r = -1; errno = pl.err; }
		e = errno;
		if (r > 0) RES("%ld waitpid = status %d", k, *st);
		else RES("%ld waitpid = -1 %s", k, errname(e));
		errno = e; return r;
	}
}

int dup2(int a, int b) {
	REAL(dup2);
	return real_dup2(a, b);                          /* only used in the forked child */
}

/* ---- pinned environment --------------------------------------------------------------------- */
time_t time(time_t *t) {
	REAL(time);
	const char *p;
	init();
	p = active == 1 ? getenv("VFIO_TIME") : NULL;
	if (p) { time_t v = (time_t)atoll(p); if (t) *t = v; return v; }
	return real_time(t);
}

pid_t getpid(void) {
	REAL(getpid);
	const char *p;
	init();
	p = active == 1 ? getenv("VFIO_PID") : NULL;
	if (p) return (pid_t)atoi(p);
	return real_getpid();
}

int gethostname(char *name, size_t len) {
	REAL(gethostname);
	const char *p;
	init();
	p = active == 1 ? getenv("VFIO_HOST") : NULL;
	if (p) {
		if (strlen(p) >= len) { memcpy(name, p, len); errno = ENAMETOOLONG; return -1; }    /* as glibc does */
		strcpy(name, p);
		return 0;
	}
	return real_gethostname(name, len);
}

unsigned int arc4random(void) {
	const char *p;
	init();
	p = active == 1 ? getenv("VFIO_RANDOM") : NULL;
	if (p) return (unsigned int)strtoul(p, NULL, 10);
	{
		static unsigned int (*real)(void);
		if (!real) real = dlsym(RTLD_NEXT, "arc4random");
		if (real) return real();
		return (unsigned int)rand();
	}
}
