"""C17 - concurrent runs on the same maildirs neither lose nor duplicate messages (partial).
P1 = mdsort on a maildir holding one message, interposed; before every one of its calls k the second party
runs to completion (shim plan k:run=...): another mdsort (move to B, cross-device move to B, flag, label,
discard) or a mail client (mv / rm).  After P1 has finished the final tree is judged by the property itself:
the message exists exactly once, intact (or not at all if a deleting party reports success), no empty or
partial file is left, a party that reports success did what it reports.  When the second party acted on the
original message (it was still there at k) the observable outcome must also be one of the finished states
the model (ConcDefs, all schedules of the two protocols) can reach.
Known finding F-16: a second mdsort that walks the directory while P1's uncommitted copy is visible there
(label / add-header: the copy is created in new/ or cur/) treats the copy as a message."""
import os, re, stat
import common, mdrun, iorun
from common import hexs

SHIM = iorun.SHIM
MARK = b'MARKER-0001'
ORIG = b'To: user@example.com\nSubject: message 1\n\n' + MARK + b'\nline two\n'
NAME = '1500000000.1_1.h'

P1_KINDS = {          # name -> (rule, model kind, xdev)
    'move':    ('move "%(A)s"', 'move', False),
    'movex':   ('move "%(A)s"', 'movex', True),
    'flag':    ('flag !new', 'move', False),          # the rule is guarded by 'new' (see setup): F-20
    'label':   ('label "one"', 'write', False),
    'addhdr':  ('add-header "X-One" "1"', 'write', False),
    'discard': ('discard', 'discard', False),
    # two actions in one rule: the rewritten copy is committed first, then moved (monitor only: the model describes single protocols)
    'label_move':  ('label "one" move "%(A)s"', 'write+move', False),
    'addhdr_flag': ('add-header "X-One" "1" flag !new', 'write+move', False),
}
P2_KINDS = {
    'move':      ('move "%(B)s"', 'move', False),
    'movex':     ('move "%(B)s"', 'movex', True),
    'flag':      ('flag !new', 'move', False),
    'label':     ('label "two"', 'write', False),
    'discard':   ('discard', 'discard', False),
    'extrename': (None, 'extrename', False),
    'extdelete': (None, 'extdelete', False),
}


BYNAME = NAME + '2:2,S'           # another message whose file name merely begins with the name of the contested one
BYSTANDER = b'To: user@example.com\nSubject: bystander\n\nnot matched by any rule of any party\n'


def setup(p1, p2, p3=None, bystander=False):
    sb = mdrun.Sandbox()
    src = sb.maildir('src'); A = sb.maildir('A'); B = sb.maildir('B')
    sb.add(src, 'new', ORIG, name=NAME, mtime=1500000000)
    if bystander:
        sb.add(src, 'cur', BYSTANDER, name=BYNAME, mtime=1400000000)
    d = {'A': A, 'B': B}
    g1 = 'new and ' if 'flag' in p1 else ''
    g2 = 'new and ' if p2 == 'flag' else ''
    c1 = sb.write_conf(('maildir "%s" {\n\tmatch %sheader "Subject" /message/ %s\n}\n' % (src, g1, P1_KINDS[p1][0] % d)).encode(), name='p1.conf')
    script = os.path.join(sb.root, 'p2.sh')
    stf = os.path.join(sb.root, 'p2.status')
    exe = os.path.join(common.scratch_build('plain'), 'mdsort')
    rule, kind, xdev = P2_KINDS[p2]
    if rule is not None:
        c2 = sb.write_conf(('maildir "%s" {\n\tmatch %sheader "Subject" /message/ %s\n}\n' % (src, g2, rule % d)).encode(), name='p2.conf')
        # (VFIO_XDEV must be absent, not empty, for the parties that rename)
        cmd = 'env -u VFIO_PLAN -u VFIO_XDEV LD_PRELOAD=%s %sVFIO_PID=4343 VFIO_LOG=%s/p2.log HOME=%s TMPDIR=%s LC_ALL=C %s -f %s 2>%s/p2.err' % (
            SHIM, 'VFIO_XDEV=1 ' if xdev else '', sb.root, sb.home, sb.tmp, exe, c2, sb.root)
    elif p2 == 'extrename':
        cmd = 'mv %s/new/%s %s/cur/ext-renamed:2,S 2>/dev/null' % (src, NAME, B)      # out of the maildir P1 walks
    else:
        cmd = 'rm %s/new/%s 2>/dev/null' % (src, NAME)
    with open(script, 'w') as f:
        f.write('#!/bin/sh\n%s\necho $? > %s\n' % (cmd, stf))
    os.chmod(script, 0o755)
    if p3 is not None:
        C = sb.maildir('C')
        script3 = os.path.join(sb.root, 'p3.sh'); stf3 = os.path.join(sb.root, 'p3.status')
        r3 = {'move': 'move "%s"' % C, 'discard': 'discard', 'label': 'label "three"'}.get(p3)
        if r3 is not None:
            c3 = sb.write_conf(('maildir "%s" {\n\tmatch header "Subject" /message/ %s\n}\n' % (src, r3)).encode(), name='p3.conf')
            cmd3 = 'env -u VFIO_PLAN -u VFIO_XDEV LD_PRELOAD=%s VFIO_PID=4444 VFIO_LOG=%s/p3.log HOME=%s TMPDIR=%s LC_ALL=C %s -f %s 2>%s/p3.err' % (
                SHIM, sb.root, sb.home, sb.tmp, exe, c3, sb.root)
        elif p3 == 'extrename':
            cmd3 = 'mv %s/new/%s %s/cur/ext3-renamed:2,S 2>/dev/null' % (src, NAME, C)
        else:
            cmd3 = 'rm %s/new/%s 2>/dev/null' % (src, NAME)
        with open(script3, 'w') as f:
            f.write('#!/bin/sh\n%s\necho $? > %s\n' % (cmd3, stf3))
        os.chmod(script3, 0o755)
        return sb, c1, script, stf, script3, stf3
    return sb, c1, script, stf


def run_p1(sb, c1, p1, plan=None):
    log = os.path.join(sb.root, 'p1.log')
    if os.path.exists(log):
        os.unlink(log)
    env = dict(iorun.PIN)
    env.update({'VFIO_LOG': log, 'VFIO_ROOT': sb.root})        # arc4random not pinned: two generated names must differ
    if P1_KINDS[p1][2]:
        env['VFIO_XDEV'] = '1'
    if plan:
        env['VFIO_PLAN'] = plan
    rc, out, err = sb.run([], conf=c1, env=env, preload=SHIM, timeout=60)
    trace = open(log, errors='replace').read().splitlines() if os.path.exists(log) else []
    return rc, err, trace


def survey(sb):
    """-> list of (maildir, sub, name, content) of every regular file in the three maildirs"""
    out = []
    for md in ('src', 'A', 'B', 'C'):
        if not os.path.isdir(os.path.join(sb.root, md)):
            continue
        for (sub, n), b in sb.snapshot(os.path.join(sb.root, md)).items():
            out.append((md, sub, n, b))
    return out


def intact(b):
    """a complete version of the message: the original bytes, possibly with headers added by label / add-header"""
    if MARK not in b:
        return False
    lines = b.split(b'\n')
    kept = [l for l in lines if not (l.startswith(b'X-Label:') or l.startswith(b'X-One:'))]       # labels one / two / three share the X-Label line
    return b'\n'.join(kept) == ORIG


def owner(md, sub, n):
    if n == NAME and md == 'src' and sub == 'new':
        return 'S'
    if n.startswith('ext-renamed'):
        return 'ext'
    m = re.match(r'^\d+\.(\d+)_', n)
    if m:
        return 'p1' if m.group(1) == '4242' else 'p2'
    return '?'


OTHER = b'To: other@example.com\nSubject: another party\n\nOTHER-PARTY-0002\n'


def collision_stage(ck, rng, stats, quick):
    """Another party delivers ITS OWN message into P1's destination under exactly the name P1 is going to use (same
    second, pid and host name - two PID namespaces or NFS clients -, same counter), following the maildir protocol
    (exclusive creation, next counter when the name is taken), at every call boundary of P1.  Neither message may be
    replaced, lost or truncated."""
    exe = os.path.join(common.scratch_build('plain'), 'mdsort')
    for p1, p2 in [(a, b) for a in ('move', 'movex') for b in ('script', 'mdsort', 'mdsortx')]:
        rnd = rng.randrange(0, 1000)
        count0 = rnd % 128
        base = None
        ks = None
        k = 0
        while True:
            k += 1
            if ks is not None and k > ks:
                break
            sb = mdrun.Sandbox()
            src = sb.maildir('src'); A = sb.maildir('A')
            sb.add(src, 'new', ORIG, name=NAME, mtime=1500000000)
            c1 = sb.write_conf(('maildir "%s" {\n\tmatch header "Subject" /message/ move "%s"\n}\n' % (src, A)).encode(), name='p1.conf')
            other = os.path.join(sb.root, 'other.msg')
            with open(other, 'wb') as f:
                f.write(OTHER)
            script = os.path.join(sb.root, 'p2.sh'); stf = os.path.join(sb.root, 'p2.status')
            with open(script, 'w') as f:
                f.write('#!/bin/sh\nfor c in %s; do\n n="%s/new/%d.%d_$c.%s:2,"\n if ( set -C; : > "$n" ) 2>/dev/null; then cat "%s" > "$n"; echo 0 > %s; exit 0; fi\ndone\necho 1 > %s\n' % (
                    ' '.join(str(count0 + 1 + j) for j in range(6)), A, iorun.PIN['VFIO_TIME'] and 1700000000, 4242, 'pinned', other, stf, stf))
            if p2 != 'script':
                # the other party is a second mdsort that sees the same second, pid, host name and counter (it inherits the pinned
                # values) and delivers its own message from its own maildir into A: it follows the same protocol as P1, so that
                # P1's still empty placeholder and P1's finished file are both names it has to step over
                Bm = sb.maildir('B')
                sb.add(Bm, 'new', OTHER, name='1500000001.7_7.other', mtime=1500000000)
                c2 = sb.write_conf(('maildir "%s" {\n\tmatch all move "%s"\n}\n' % (Bm, A)).encode(), name='p2.conf')
                with open(script, 'w') as f:
                    f.write('#!/bin/sh\nenv -u VFIO_PLAN -u VFIO_XDEV -u VFIO_LOG LD_PRELOAD=%s %s%s -f %s 2>%s/p2.err\necho $? > %s\n' % (
                        SHIM, 'VFIO_XDEV=1 ' if p2 == 'mdsortx' else '', exe, c2, sb.root, stf))
            os.chmod(script, 0o755)
            log = os.path.join(sb.root, 'p1.log')
            env = dict(iorun.PIN)
            env.update({'VFIO_LOG': log, 'VFIO_ROOT': sb.root, 'VFIO_RANDOM': str(rnd)})
            if p1 == 'movex':
                env['VFIO_XDEV'] = '1'
            if ks is not None:
                env['VFIO_PLAN'] = '%d:run=%s' % (k, script)
            rc1, out, err1 = sb.run([], conf=c1, env=env, preload=SHIM, timeout=60)
            trace = open(log, errors='replace').read().splitlines() if os.path.exists(log) else []
            if ks is None:
                ks = len(iorun.parse_trace(trace))
                base = trace
                k = 0
                sb.cleanup()
                continue
            stats['runs'] += 1; stats['collision'] = stats.get('collision', 0) + 1
            st2 = open(stf).read().strip() if os.path.exists(stf) else None
            files = survey(sb)
            rep = {'stage': 'collision', 'p1': p1, 'p2': p2, 'boundary': k, 'random': rnd, 'p1_exit': rc1, 'p2_exit': st2,
                   'files': [(md, sub, nm, len(b)) for md, sub, nm, b in files], 'p1_stderr': err1[-300:].decode(errors='replace'),
                   'p1_call_at_boundary': base[k - 1] if k - 1 < len(base) else None}
            if st2 is not None:
                mine = [f for f in files if intact(f[3])]
                theirs = [f for f in files if f[3] == OTHER]
                rest = [(f[0], f[1], f[2], len(f[3])) for f in files if not intact(f[3]) and f[3] != OTHER]
                why = None
                if p2 != 'script' and len(theirs) != 1:
                    why = "the other mdsort's message exists %d times (it exits %s)" % (len(theirs), st2)
                elif p2 != 'script' and st2 == '0' and theirs[0][0] != 'A':
                    why = 'the other mdsort reports success but its message is in %s' % theirs[0][0]
                elif st2 == '0' and len(theirs) != 1:
                    why = "the other party's message exists %d times after it was delivered under the name P1 uses" % len(theirs)
                elif len(mine) != 1:
                    why = "P1's message exists %d times" % len(mine)
                elif rest:
                    why = 'empty / partial file(s) left behind: %r' % rest
                elif rc1 == 0 and mine[0][0] != 'A':
                    why = 'P1 reports success but its message is in %s' % mine[0][0]
                if why:
                    stats['viol'] += 1
                    if stats['viol'] <= 4:
                        ck.violation('name collision: P1 = mdsort %s, the other party (%s) delivers under the same name before call %d of P1 (%s): %s' % (
                            p1, p2, k, rep['p1_call_at_boundary'], why), rep)
                else:
                    stats['nontrivial'] += 1
            sb.cleanup()
            if stats['viol'] > 3:
                return


def two_block_stage(ck, rng, stats, q):
    """P1 is ONE run with two blocks: a message is moved from the inbox into the archive across file systems (that rename fails with EXDEV),
    then the archive itself is walked and another message is flagged there (a rename inside one file system).  P2, a second mdsort, moves
    that other message out of the archive at every call boundary of P1.  What P1 learnt in its first block must not change how it treats
    the second: at no boundary are there two complete copies for P2 to find."""
    BULK = b'To: user@example.com\nSubject: bulk\n\nBULK-0003\n'
    exe = os.path.join(common.scratch_build('plain'), 'mdsort')
    n = None; k = 0
    while True:
        k += 1
        if n is not None and k > n:
            break
        sb = mdrun.Sandbox()
        inbox = sb.maildir('src'); A = sb.maildir('A'); B = sb.maildir('B')
        sb.add(inbox, 'new', BULK, name='1500000000.5_5.bulk', mtime=1500000000)
        sb.add(A, 'new', ORIG, name=NAME, mtime=1500000000)
        c1 = sb.write_conf(('maildir "%s" {\n\tmatch header "Subject" /bulk/ move "%s"\n}\nmaildir "%s" {\n\tmatch new and header "Subject" /message/ flag !new\n}\n'
                            % (inbox, A, A)).encode(), name='p1.conf')
        c2 = sb.write_conf(('maildir "%s" {\n\tmatch header "Subject" /message/ move "%s"\n}\n' % (A, B)).encode(), name='p2.conf')
        script = os.path.join(sb.root, 'p2.sh'); stf = os.path.join(sb.root, 'p2.status')
        with open(script, 'w') as f:
            f.write('#!/bin/sh\nenv -u VFIO_PLAN -u VFIO_XDEV LD_PRELOAD=%s VFIO_PID=4343 VFIO_LOG=%s/p2.log HOME=%s TMPDIR=%s LC_ALL=C %s -f %s 2>%s/p2.err\necho $? > %s\n'
                    % (SHIM, sb.root, sb.home, sb.tmp, exe, c2, sb.root, stf))
        os.chmod(script, 0o755)
        log = os.path.join(sb.root, 'p1.log')
        env = dict(iorun.PIN)
        env.update({'VFIO_LOG': log, 'VFIO_ROOT': sb.root, 'VFIO_XDEV': 'name:1500000000.5_5.bulk'})
        if n is not None:
            env['VFIO_PLAN'] = '%d:run=%s' % (k, script)
        rc1, out, err1 = sb.run([], conf=c1, env=env, preload=SHIM, timeout=60)
        trace = open(log, errors='replace').read().splitlines() if os.path.exists(log) else []
        if n is None:
            n = len(iorun.parse_trace(trace)); k = 0
            sb.cleanup(); continue
        stats['runs'] += 1; stats['two_block'] = stats.get('two_block', 0) + 1
        st2 = open(stf).read().strip() if os.path.exists(stf) else None
        if st2 is not None:
            files = survey(sb)
            urgent = [(md, sub, nm) for md, sub, nm, b in files if intact(b)]
            bulk = [(md, sub, nm) for md, sub, nm, b in files if b == BULK]
            junk = [(md, sub, nm, len(b)) for md, sub, nm, b in files if not intact(b) and b != BULK]
            why = None
            if len(urgent) != 1:
                why = 'the flagged message exists %d times: %r' % (len(urgent), urgent)
            elif len(bulk) != 1 or bulk[0][0] != 'A':
                why = 'the moved message is at %r' % bulk
            elif junk:
                why = 'empty / partial file(s) left behind: %r' % junk
            if why:
                stats['viol'] += 1
                if stats['viol'] <= 4:
                    ck.violation('P1 = one run, block 1 moves a message into A across file systems, block 2 flags another message inside A; P2 = mdsort moving that message '
                                 'out of A before call %d of P1: %s (P1 exit %d, P2 exit %s)' % (k, why, rc1, st2),
                                 {'stage': 'two-block', 'boundary': k, 'p1_exit': rc1, 'p2_exit': st2, 'files': [(md, sub, nm, len(b)) for md, sub, nm, b in files]})
            else:
                stats['nontrivial'] += 1
        sb.cleanup()
        if stats['viol'] > 3:
            return


def run(ck):
    rng = ck.rng
    q = ck.tier == 'quick'
    model = common.model_exe()
    stats = dict(runs=0, nontrivial=0, model_checked=0, known=0, viol=0)
    collision_stage(ck, rng, stats, q)
    two_block_stage(ck, rng, stats, q)
    samples = []
    pairs = [(a, b) for a in P1_KINDS for b in P2_KINDS if '+' not in P1_KINDS[a][1] or not q or b in ('extrename', 'extdelete', 'move', 'discard')]
    # model outcomes per pair of model kinds
    mk = sorted(set((P1_KINDS[a][1], P2_KINDS[b][1]) for a, b in pairs if '+' not in P1_KINDS[a][1]))
    mout, _ = common.run_lines(model, ['conc %s %s' % x for x in mk])
    model_outcomes = {x: set(o.split()) for x, o in zip(mk, mout)}
    for p1, p2 in pairs:
        sb, c1, script, stf = setup(p1, p2)
        rc0, err0, trace0 = run_p1(sb, c1, p1)
        calls0 = iorun.parse_trace(trace0)
        n = len(calls0)
        sb.cleanup()
        # the window in which P1's uncommitted copy / placeholder is visible inside the walked maildir
        created_k = None; commit_k = None; open_k = None
        for c in calls0:
            if c['call'] == 'read' and c['args'].endswith('/src/new/' + NAME) and open_k is None:
                open_k = c['k']
            if c['call'] == 'openat' and 'CREAT|EXCL' in c['args'] and c['ok'] and '/src/' in c['args'] and created_k is None:
                created_k = c['k']
            if c['call'] in ('unlinkat', 'renameat') and c['ok'] and ('src/new/' + NAME) in c['args'] and commit_k is None:
                commit_k = c['k']
        ks = list(range(1, n + 1))
        if q and len(ks) > 22:
            ks = sorted(set(rng.sample(ks, 16) + ([created_k + 1] if created_k else []) + ([commit_k] if commit_k else []) + [1, n]))
        for k in ks:
            sb, c1, script, stf = setup(p1, p2, bystander=True)
            rc1, err1, trace = run_p1(sb, c1, p1, plan='%d:run=%s' % (k, script))
            stats['runs'] += 1
            st2 = open(stf).read().strip() if os.path.exists(stf) else None
            files = survey(sb)
            by = [(md, sub, nm) for md, sub, nm, b in files if b == BYSTANDER]
            files = [f for f in files if f[3] != BYSTANDER]
            rep = {'p1': p1, 'p2': p2, 'boundary': k, 'p1_exit': rc1, 'p2_exit': st2, 'files': [(md, sub, nm, len(b)) for md, sub, nm, b in files],
                   'p1_stderr': err1[-300:].decode(errors='replace'), 'p1_call_at_boundary': trace0[k - 1] if k - 1 < len(trace0) else None}
            if st2 is None:
                sb.cleanup()
                continue            # the boundary was never reached (shorter run)
            copies = [(md, sub, nm, b) for md, sub, nm, b in files if intact(b)]
            junk = [(md, sub, nm, len(b)) for md, sub, nm, b in files if not intact(b)]
            # a deleting party really removed the message: its trace shows a successful unlink of a file it did not create
            # (the exit status is cumulative: an earlier lost race makes it 1 even though the discard succeeded later)
            def unlinked_foreign(lines, pid):
                return any(re.match(r'^\d+ unlinkat .* = 0$', l) and ('.%s_' % pid) not in l for l in lines)
            p2log = os.path.join(sb.root, 'p2.log')
            p2lines = open(p2log, errors='replace').read().splitlines() if os.path.exists(p2log) else []
            removers_ok = (p1 == 'discard' and unlinked_foreign(trace, '4242')) or (p2 == 'discard' and unlinked_foreign(p2lines, '4343')) or \
                          (p2 == 'extdelete' and st2 == '0')
            why = None
            if by != [('src', 'cur', BYNAME)]:
                why = 'a message that no rule of any party matches (its file name begins with the name of the contested one) was moved, copied or removed: now at %r' % by
            elif junk:
                why = 'empty / partial / foreign file(s) left behind: %r' % junk
            elif len(copies) > 1:
                why = 'the message exists %d times: %r' % (len(copies), [(c[0], c[1], c[2]) for c in copies])
            elif len(copies) == 0 and not removers_ok:
                why = 'the message is gone although no deleting party reports success (P1 exit %s, P2 exit %s)' % (rc1, st2)
            elif rc1 < 0 or rc1 > 1:
                why = 'P1 terminated abnormally (%d)' % rc1
            walker = P2_KINDS[p2][0] is not None
            in_window = walker and created_k is not None and commit_k is not None and created_k < k <= commit_k and P1_KINDS[p1][1].startswith('write')
            if why:
                key = 'F-16-walker-selects-uncommitted-copy'
                if in_window and ck.is_known(key):
                    stats['known'] += 1
                    ck.known_finding(key, 'P1 %s, P2 mdsort %s at boundary %d: %s' % (p1, p2, k, why[:80]))
                else:
                    stats['viol'] += 1
                    if stats['viol'] <= 4:
                        ck.violation('P1 = mdsort %s, P2 = %s run to completion before call %d of P1 (%s): %s' % (p1, p2, k, rep['p1_call_at_boundary'], why), rep)
                sb.cleanup()
                continue
            stats['nontrivial'] += 1
            # correspondence: only when P2 met the original message (it was still under its name at k) and no uncommitted copy was in view
            src_there = (commit_k is None or k <= commit_k) and open_k is not None and k > open_k
            # a P2 that leaves the message inside the maildir P1 is walking (flag, label) is met again by P1: sequential composition, monitor only
            if src_there and not in_window and p2 not in ('flag', 'label') and '+' not in P1_KINDS[p1][1]:
                where = '-'
                if copies:
                    md, sub, nm, b = copies[0]
                    o = owner(md, sub, nm)
                    if o == 'S':
                        where = 'S'
                    elif o == 'p1':
                        where = ('N0' if P1_KINDS[p1][1] == 'write' else 'D0')
                    elif o in ('p2', 'ext'):
                        where = ('N1' if P2_KINDS[p2][1] == 'write' else 'D1')
                    else:
                        where = '?'
                s2 = '0' if (st2 == '0' or p2.startswith('ext')) else '1'
                summ = '%s:%d,%s' % (where, 1 if rc1 else 0, s2)
                stats['model_checked'] += 1
                allowed = model_outcomes[(P1_KINDS[p1][1], P2_KINDS[p2][1])]
                if summ not in allowed:
                    rep['obligation'] = 'correspondence ConcDefs'
                    rep['outcome'] = summ; rep['model_outcomes'] = sorted(allowed)
                    ck.violation('correspondence broken (ConcDefs): P1 %s / P2 %s at boundary %d ends as %s, the model reaches only %s' % (p1, p2, k, summ, sorted(allowed)), rep, found_input=False)
            if len(samples) < 3:
                samples.append(rep)
            sb.cleanup()
            if len(ck.violations) > 5:
                break
        if len(ck.violations) > 5:
            break
    if not q and len(ck.violations) <= 5:
        three_parties(ck, rng, stats, 250)
    ck.coverage.update({
        'evaluations': stats['runs'],
        'distinct_nontrivial': stats['nontrivial'],
        'rule': 'P1 in {move A, cross-device move A, flag, label, add-header, discard, label then move A, add-header then flag} x P2 in {mdsort move B, cross-device move B, flag, label, discard, mv, rm} on one message; P2 runs to '
                'completion before call k of P1 for every k (quick: <= 18 boundaries per pair incl. the first, the last, the one after the creation of P1\'s file and the '
                'commit; thorough: every boundary, plus 250 sampled schedules with THREE parties and two preemption points - P2 before call k1, P3 before call k2 >= k1 - judged by the monitor). non-trivial = a schedule whose final tree satisfied the property (then, if P2 met the original message, compared with the model\'s reachable outcomes)',
        'samples': samples,
        'traces_validated_against_impl': stats['model_checked'],
        'schedules_run': stats['runs'], 'known_finding_hits': stats['known'], 'three_party_schedules': stats.get('three', 0),
    })
    ck.assumptions += ['shim/libvfio.so runs the second party synchronously inside the interposed call (call-granularity interleaving)',
                       'thread-level simultaneity inside the kernel is not exercised']
    ck.notes.append('partial: single preemption point per run on the binary; the model theorems cover every schedule of two and three parties; F-16 excluded as known finding')


def three_parties(ck, rng, stats, n):
    """thorough tier: three parties, two preemption points (P2 before call k1 of P1, P3 before call k2 >= k1); monitor only"""
    stats['three'] = 0
    for i in range(n):
        p1 = rng.choice(sorted(k_ for k_ in P1_KINDS if '+' not in P1_KINDS[k_][1])); p2 = rng.choice(sorted(P2_KINDS)); p3 = rng.choice(['move', 'discard', 'label', 'extrename', 'extdelete'])
        sb, c1, script, stf = setup(p1, p2)
        rc0, err0, trace0 = run_p1(sb, c1, p1)
        calls0 = iorun.parse_trace(trace0)
        sb.cleanup()
        nc = len(calls0)
        if nc < 2:
            continue
        created_k = commit_k = None
        for c in calls0:
            if c['call'] == 'openat' and 'CREAT|EXCL' in c['args'] and c['ok'] and '/src/' in c['args'] and created_k is None:
                created_k = c['k']
            if c['call'] in ('unlinkat', 'renameat') and c['ok'] and ('src/new/' + NAME) in c['args'] and commit_k is None:
                commit_k = c['k']
        k1 = rng.randrange(1, nc + 1); k2 = rng.randrange(k1, nc + 1)
        sb, c1, script, stf, script3, stf3 = setup(p1, p2, p3)
        rc1, err1, trace = run_p1(sb, c1, p1, plan='%d:run=%s,%d:run=%s' % (k1, script, k2, script3))
        stats['runs'] += 1; stats['three'] += 1
        st2 = open(stf).read().strip() if os.path.exists(stf) else None
        st3 = open(stf3).read().strip() if os.path.exists(stf3) else None
        files = survey(sb)
        copies = [f for f in files if intact(f[3])]
        junk = [(md, sub, nm, len(b)) for md, sub, nm, b in files if not intact(b)]

        def unlinked_foreign(path, pid):
            lines = open(path, errors='replace').read().splitlines() if os.path.exists(path) else []
            return any(re.match(r'^\d+ unlinkat .* = 0$', l) and ('.%s_' % pid) not in l for l in lines)
        removers_ok = (p1 == 'discard' and unlinked_foreign(os.path.join(sb.root, 'p1.log'), '4242')) or \
                      (p2 == 'discard' and unlinked_foreign(os.path.join(sb.root, 'p2.log'), '4343')) or (p2 == 'extdelete' and st2 == '0') or \
                      (p3 == 'discard' and unlinked_foreign(os.path.join(sb.root, 'p3.log'), '4444')) or (p3 == 'extdelete' and st3 == '0')
        why = None
        if junk:
            why = 'empty / partial / foreign file(s) left behind: %r' % junk
        elif len(copies) > 1:
            why = 'the message exists %d times: %r' % (len(copies), [(c[0], c[1], c[2]) for c in copies])
        elif len(copies) == 0 and not removers_ok:
            why = 'the message is gone although no deleting party removed it (exits %s, %s, %s)' % (rc1, st2, st3)
        elif rc1 < 0 or rc1 > 1:
            why = 'P1 terminated abnormally (%d)' % rc1
        if why:
            walkers = [(P2_KINDS[p2][0] is not None, k1), (p3 in ('move', 'discard', 'label'), k2)]
            # a walker (P2, P3) inside P1's window, or P3 walking while a label copy written by P2 ... (P2 has finished: committed)
            in_window = P1_KINDS[p1][1] == 'write' and created_k is not None and commit_k is not None and \
                        any(w and created_k < k <= commit_k for w, k in walkers)
            key = 'F-16-walker-selects-uncommitted-copy'
            rep = {'p1': p1, 'p2': p2, 'p3': p3, 'k1': k1, 'k2': k2, 'p1_exit': rc1, 'p2_exit': st2, 'p3_exit': st3,
                   'files': [(md, sub, nm, len(b)) for md, sub, nm, b in files], 'p1_stderr': err1[-300:].decode(errors='replace')}
            if in_window and ck.is_known(key):
                stats['known'] += 1
                ck.known_finding(key, 'three parties: P1 %s, P2 %s at %d, P3 %s at %d' % (p1, p2, k1, p3, k2))
            else:
                stats['viol'] += 1
                if stats['viol'] <= 4:
                    ck.violation('P1 = mdsort %s, P2 = %s before call %d, P3 = %s before call %d of P1: %s' % (p1, p2, k1, p3, k2, why), rep)
        else:
            stats['nontrivial'] += 1
        sb.cleanup()
        if len(ck.violations) > 5:
            break


def replay(ck, rp):
    print(rp)
    if rp.get('stage') == 'collision':
        import random, collections
        stats = collections.defaultdict(int)

        class R(random.Random):
            def randrange(self, *a, **k):
                return rp['random']
        collision_stage(ck, R(), stats, True)
        return 1 if ck.violations else 0
    return 1
