(* C04 - the exit status tells the truth (MDA contract, error isolation).
   Statements only; proofs are in MainProofs.v; the I/O side (failures reported) is IOProofs.v. *)
From Coq Require Import List Bool ZArith.
Import ListNotations.
From MD Require Import Generated MainDefs MainProofs IODefs IOProofs.

Theorem C04_status_zero_means_clean : forall stdin conf_ok syntax mds n,
  main false stdin conf_ok syntax mds = Exit 0 n ->
  conf_ok = true /\ (syntax = true \/ (existsb md_error mds = false /\ (stdin = true -> existsb md_reject mds = false))).
Proof. exact status_zero_iff. Qed.
Print Assumptions C04_status_zero_means_clean.

Theorem C04_error_reported : forall stdin syntax mds,
  existsb md_error mds = true -> syntax = false ->
  exists n, main false stdin true syntax mds = Exit (if stdin then ex_tempfail else 1%Z) n.
Proof. exact any_error_nonzero. Qed.
Print Assumptions C04_error_reported.

Theorem C04_config_error_reported : forall stdin syntax mds,
  main false stdin false syntax mds = Exit (if stdin then ex_tempfail else 1%Z) 0.
Proof. exact config_error_nonzero. Qed.
Print Assumptions C04_config_error_reported.

Theorem C04_stdin_codes : forall conf_ok syntax mds s n,
  main false true conf_ok syntax mds = Exit s n ->
  (s = 0%Z \/ s = ex_permfail \/ s = ex_tempfail) /\
  (s = ex_permfail -> conf_ok = true /\ existsb md_error mds = false /\ existsb md_reject mds = true) /\
  (conf_ok = true -> syntax = false -> existsb md_error mds = true -> s = ex_tempfail).
Proof. exact stdin_codes. Qed.
Print Assumptions C04_stdin_codes.

Theorem C04_isolation : forall stdin mds s n,
  main false stdin true false mds = Exit s n ->
  n = fold_left (fun n md => match md with None => n | Some rs => n + length rs end) mds 0.
Proof. exact all_examined. Qed.
Print Assumptions C04_isolation.

(* an action that reports success has put the message at its final place (from C01) *)
Theorem C04_action_status_sound : forall a v m k r, v <= 1 -> m <= 1 -> r <> Ok ->
  c01_check a v m (single k r) k = true.
Proof. exact c01_single_fault. Qed.
Print Assumptions C04_action_status_sound.

(* F-12 (known finding): the stdin clause "0 only if stored or discarded" is false of the faithful
   model: a message matched by no rule yields status 0 and the spool is removed *)
Lemma C04_refuted_stdin_nomatch : main false true true false [Some [MNoMatch]] = Exit 0 1.
Proof. reflexivity. Qed.
Print Assumptions C04_refuted_stdin_nomatch.
