(* M5: maildir flags (two 26-bit sets), message_flags_parse/str/set/clr, msgflags, decimal
   rendering, maildir_genname's candidate names and retry loop, pathjoin, pathslice, bounded copies.
   No proofs here. *)
From MD Require Import Bytes Generated.
From Coq Require Import DecimalN.
Local Open Scope N_scope.

(* ---- flags ------------------------------------------------------------------------------------ *)
Record mflags := mkflags { mf_upper : N; mf_lower : N }.
Definition flags_empty : mflags := mkflags 0 0.

(* message_flags_resolve: which set, which bit; None = "unknown flag" *)
Definition flags_set (mf : mflags) (c : N) : option mflags :=
  if isupper c then Some (mkflags (N.setbit (mf_upper mf) (c - 65)) (mf_lower mf))
  else if islower c then Some (mkflags (mf_upper mf) (N.setbit (mf_lower mf) (c - 97)))
  else None.

Definition flags_clr (mf : mflags) (c : N) : option mflags :=
  if isupper c then Some (mkflags (N.clearbit (mf_upper mf) (c - 65)) (mf_lower mf))
  else if islower c then Some (mkflags (mf_upper mf) (N.clearbit (mf_lower mf) (c - 97)))
  else None.

Definition flags_isset (mf : mflags) (c : N) : bool :=
  if isupper c then N.testbit (mf_upper mf) (c - 65)
  else if islower c then N.testbit (mf_lower mf) (c - 97)
  else false.

Fixpoint flags_set_all (mf : mflags) (s : bytes) : option mflags :=
  match s with
  | [] => Some mf
  | c :: r => match flags_set mf c with
              | Some mf' => flags_set_all mf' r
              | None => None
              end
  end.

(* strrchr(path, ':'): the text after the LAST colon, if any *)
Fixpoint after_last_colon (s : bytes) : option bytes :=
  match s with
  | [] => None
  | c :: r => match after_last_colon r with
              | Some t => Some t
              | None => if c =? 58 then Some r else None
              end
  end.

(* message_flags_parse(path): None = error ("invalid flags" / "unknown flag") *)
Definition flags_parse (path : bytes) : option mflags :=
  match after_last_colon path with
  | None => Some flags_empty
  | Some t =>
      match t with
      | 50 :: 44 :: letters => flags_set_all flags_empty letters
      | _ => None
      end
  end.

(* strflags: the set bits in increasing order as letters; fuel = width of the word *)
Fixpoint strflags_loop (fuel : nat) (flags bit : N) : bytes :=
  match fuel with
  | O => []
  | S f => if flags =? 0 then []
           else (if N.odd flags then [bit] else []) ++ strflags_loop f (N.div2 flags) (bit + 1)
  end.
Definition strflags (flags offset : N) : bytes := strflags_loop 32 flags offset.

(* message_flags_str with a buffer of bufsiz bytes: ":2," + upper + lower, or None (ENAMETOOLONG) *)
Definition flags_str (mf : mflags) (bufsiz : nat) : option bytes :=
  let s := [58; 50; 44] ++ strflags (mf_upper mf) 65 ++ strflags (mf_lower mf) 97 in
  if Nat.ltb (length s) bufsiz then Some s else None.

Inductive subdir := SubNew | SubCur.

(* msgflags(src, dst, msg): the flag suffix of the destination name *)
Definition msgflags (src dst : subdir) (mf : mflags) : option bytes :=
  let mf' := match src, dst with
             | SubNew, SubCur => flags_set mf 83
             | SubCur, SubNew => flags_clr mf 83
             | _, _ => Some mf
             end in
  match mf' with
  | Some m => flags_str m flags_max
  | None => None
  end.

(* ---- decimal rendering (printf %lld / %d / %u of a non-negative value) --------------------------- *)
Fixpoint uint_bytes (u : Decimal.uint) : bytes :=
  match u with
  | Decimal.Nil => []
  | Decimal.D0 r => 48 :: uint_bytes r
  | Decimal.D1 r => 49 :: uint_bytes r
  | Decimal.D2 r => 50 :: uint_bytes r
  | Decimal.D3 r => 51 :: uint_bytes r
  | Decimal.D4 r => 52 :: uint_bytes r
  | Decimal.D5 r => 53 :: uint_bytes r
  | Decimal.D6 r => 54 :: uint_bytes r
  | Decimal.D7 r => 55 :: uint_bytes r
  | Decimal.D8 r => 56 :: uint_bytes r
  | Decimal.D9 r => 57 :: uint_bytes r
  end.
Definition dec (n : N) : bytes := uint_bytes (N.to_uint n).

(* ---- maildir_genname -------------------------------------------------------------------------- *)
(* "%lld.%d_%u.%s%s" *)
Definition genname_fmt (ts pid count : N) (host flags : bytes) : bytes :=
  dec ts ++ [46] ++ dec pid ++ [95] ++ dec count ++ [46] ++ host ++ flags.

Definition two32 : N := 4294967296.

Inductive genres := GenOk (name : bytes) (tries : nat) | GenTooLong | GenFuel.

(* exists_ : does openat(O_CREAT|O_EXCL) fail with EEXIST for this name?  count is the value
   before the increment; bufsiz = NAME_MAX + 1. *)
Fixpoint genname_loop (fuel : nat) (exists_ : bytes -> bool) (ts pid count : N) (host flags : bytes)
         (bufsiz : nat) (tries : nat) : genres :=
  match fuel with
  | O => GenFuel
  | S f =>
      let count' := (count + 1) mod two32 in
      let name := genname_fmt ts pid count' host flags in
      if negb (Nat.ltb (length name) bufsiz) then GenTooLong
      else if exists_ name then genname_loop f exists_ ts pid count' host flags bufsiz (S tries)
      else GenOk name (S tries)
  end.

(* ---- pathjoin / strlcpy ------------------------------------------------------------------------- *)
Definition pathjoin (bufsiz : nat) (dir file : bytes) : option bytes :=
  let s := dir ++ [47] ++ file in
  if Nat.ltb (length s) bufsiz then Some s else None.

(* strlcpy(dst, src, siz) >= siz is the error test used everywhere *)
Definition bounded_copy (bufsiz : nat) (s : bytes) : option bytes :=
  if Nat.ltb (length s) bufsiz then Some s else None.

(* ---- compositions of the bounded primitives -------------------------------------------------------
   Every path mdsort acts on is computed from configuration strings, environment values and file names by nesting
   strlcpy-with-check and pathjoin.  A path expression records such a nesting; `intended` is the string the nesting is
   meant to denote (as if buffers were unbounded), `compute` what the bounded primitives deliver. *)
Inductive pexp :=
| PLit (s : bytes)
| PCopy (bufsiz : nat) (e : pexp)
| PJoin (bufsiz : nat) (d f : pexp).

Fixpoint intended (e : pexp) : bytes :=
  match e with
  | PLit s => s
  | PCopy _ e => intended e
  | PJoin _ d f => intended d ++ [47] ++ intended f
  end.

Fixpoint compute (e : pexp) : option bytes :=
  match e with
  | PLit s => Some s
  | PCopy n e => match compute e with Some s => bounded_copy n s | None => None end
  | PJoin n d f => match compute d, compute f with Some a, Some b => pathjoin n a b | _, _ => None end
  end.

(* every buffer on the way is large enough for the intended string it is to hold *)
Fixpoint all_fit (e : pexp) : bool :=
  match e with
  | PLit _ => true
  | PCopy n e => all_fit e && Nat.ltb (length (intended e)) n
  | PJoin n d f => all_fit d && all_fit f && Nat.ltb (length (intended (PJoin n d f))) n
  end.

(* the flows of the code, with the buffer sizes of the structures involved *)
Definition PM : nat := N.to_nat path_max.
Definition NMAX1 : nat := S (N.to_nat name_max).
Definition tmpl : bytes := [109; 100; 115; 111; 114; 116; 45; 88; 88; 88; 88; 88; 88; 88; 88].    (* "mdsort-XXXXXXXX" *)
(* maildir_open: md_root <- strlcpy; maildir_opendir: md_path <- pathjoin(md_root, subdir); message_parse: me_path <- pathjoin(md_path, name) *)
Definition e_maildir_dir (root sub : bytes) : pexp := PJoin PM (PCopy PM (PLit root)) (PLit sub).
Definition e_message_path (root sub name : bytes) : pexp := PJoin PM (e_maildir_dir root sub) (PLit name).
Definition e_message_name (name : bytes) : pexp := PCopy NMAX1 (PLit name).
(* match_interpolate: mh_path <- strlcpy(interpolated destination); maildir_open on it; message_set_file: me_path <- pathjoin(md_path, generated name) *)
Definition e_delivered_path (dest sub newname : bytes) : pexp := PJoin PM (PJoin PM (PCopy PM (PCopy PM (PLit dest))) (PLit sub)) (PLit newname).
(* readenv: ev_tmpdir <- strlcpy; writefd / maildir_stdin: pathjoin(ev_tmpdir, "mdsort-XXXXXXXX") *)
Definition e_tmp_template (tmpdir : bytes) : pexp := PJoin PM (PCopy PM (PLit tmpdir)) (PLit tmpl).

(* ---- pathslice ---------------------------------------------------------------------------------- *)
Fixpoint count_slash (s : bytes) : nat :=
  match s with
  | [] => O
  | c :: r => if c =? 47 then S (count_slash r) else count_slash r
  end.

Definition is_abs (s : bytes) : bool := match s with c :: _ => c =? 47 | [] => false end.
Definition ncomps (s : bytes) : nat := (if is_abs s then 0 else 1)%nat + count_slash s.

(* single pass over the characters.  A component starts at index 0 and at every '/'.
   acc = output reversed, room = remaining bufsiz.  None = return NULL. *)
Fixpoint ps_loop (b e : nat) (isrange : bool) (nc : nat) (first : bool) (i : nat) (docopy : bool)
         (room : nat) (s acc : bytes) : option (bytes * nat) :=
  match s with
  | [] => Some (acc, room)
  | c :: r =>
      if first || (c =? 47) then
        let i' := if first then O else S i in
        if negb (Nat.ltb i' nc) then Some (acc, room) else
        let d := Nat.leb b i' && Nat.leb i' e in
        if d then
          match room with
          | O => None
          | S room' =>
              if c =? 47 then
                if isrange then ps_loop b e isrange nc false i' d room' r (47 :: acc)
                else ps_loop b e isrange nc false i' d room r acc
              else ps_loop b e isrange nc false i' d room' r (c :: acc)
          end
        else ps_loop b e isrange nc false i' d room r acc
      else
        if docopy then
          match room with
          | O => None
          | S room' => ps_loop b e isrange nc false i docopy room' r (c :: acc)
          end
        else ps_loop b e isrange nc false i docopy room r acc
  end.

(* pathslice(path, buf, bufsiz, beg, end) with the C int arguments as Z *)
Definition pathslice (path : bytes) (bufsiz : nat) (beg end_ : Z) : option bytes :=
  let nc := ncomps path in
  let isrange := negb (Z.eqb (end_ - beg) 0) in
  let adj (x : Z) : Z := if Z.ltb x 0 then (Z.of_nat nc + x - (if isrange then 1 else 0))%Z else x in
  let e := adj end_ in
  let b := adj beg in
  if (Z.ltb b 0 || Z.ltb e b || Z.ltb e 0 || Z.leb (Z.of_nat nc) e)%bool then None else
  match ps_loop (Z.to_nat b) (Z.to_nat e) isrange nc true O false bufsiz path [] with
  | None => None
  | Some (acc, room) => match room with O => None | S _ => Some (rev acc) end
  end.

(* the declarative reading: the path cut before every '/' *)
Fixpoint split_before (s : bytes) : list bytes :=
  match s with
  | [] => [[]]
  | c :: r => match split_before r with
              | l :: ls => if c =? 47 then [] :: (c :: l) :: ls else (c :: l) :: ls
              | [] => [[c]]
              end
  end.
Definition chunks (s : bytes) : list bytes :=
  if is_abs s then tl (split_before s) else split_before s.
Definition render_chunk (isrange : bool) (ch : bytes) : bytes :=
  if isrange then ch else match ch with c :: r => if c =? 47 then r else ch | [] => [] end.
(* the chunks whose index lies in [b, e], rendered and concatenated *)
Fixpoint select (f : bytes -> bytes) (b e k : nat) (l : list bytes) : bytes :=
  match l with
  | [] => []
  | ch :: r => (if Nat.leb b k && Nat.leb k e then f ch else []) ++ select f b e (S k) r
  end.
Definition slice_spec (path : bytes) (b e : nat) (isrange : bool) : bytes :=
  select (render_chunk isrange) b e O (chunks path).
