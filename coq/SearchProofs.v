(* searchheader (binary search + run extension, index level) on a key-sorted table returns exactly
   the maximal run of entries whose name equals the needle case-insensitively; it never indexes
   outside the table. *)
From MD Require Import Bytes Generated DecodeDefs HeaderDefs OrderProofs.
From Coq Require Import ZifyBool ZifyN ZifyNat Permutation Sorted.
Local Open Scope nat_scope.

Definition cmpk (key : bytes) (h : hdr) : comparison := strcasecmp key (h_key h).

Definition Seg (key : bytes) (l1 l2 l3 : list hdr) : Prop :=
  Forall (fun h => cmpk key h = Gt) l1 /\
  Forall (fun h => cmpk key h = Eq) l2 /\
  Forall (fun h => cmpk key h = Lt) l3.

Lemma sorted_seg key tbl : SortedK tbl ->
  exists l1 l2 l3, tbl = l1 ++ l2 ++ l3 /\ Seg key l1 l2 l3.
Proof.
  induction 1 as [|x r Hs IH Hx].
  - exists [], [], []. repeat split; constructor.
  - destruct IH as (l1 & l2 & l3 & -> & H1 & H2 & H3).
    destruct (cmpk key x) eqn:E.
    + (* Eq: nothing smaller can follow *)
      assert (l1 = []) as ->.
      { destruct l1 as [|y l1']; [reflexivity|]. exfalso.
        inversion H1 as [|? ? Hy _]; subst. inversion Hx as [|? ? Hxy _]; subst.
        unfold cmpk, kle, cle in *.
        rewrite (strcasecmp_eq_l key (h_key x) (h_key y) E) in Hy. congruence. }
      exists [], (x :: l2), l3. repeat split; try constructor; auto.
    + (* Lt: everything that follows is greater than the needle *)
      assert (Hall : Forall (fun h => cmpk key h = Lt) (l1 ++ l2 ++ l3)).
      { eapply Forall_impl; [|exact Hx]. intros y Hy. unfold cmpk, kle, cle in *.
        destruct (strcasecmp (h_key x) (h_key y)) eqn:E2; [| |congruence].
        - rewrite <- (strcasecmp_eq_r key (h_key x) (h_key y) E2). exact E.
        - eapply strcasecmp_trans; eauto. }
      assert (l1 = []) as ->.
      { destruct l1 as [|y l1']; [reflexivity|]. exfalso.
        inversion H1 as [|? ? Hy _]; subst. inversion Hall as [|? ? Hy' _]; subst. congruence. }
      assert (l2 = []) as ->.
      { destruct l2 as [|y l2']; [reflexivity|]. exfalso.
        inversion H2 as [|? ? Hy _]; subst. inversion Hall as [|? ? Hy' _]; subst. congruence. }
      exists [], [], (x :: l3). repeat split; try constructor; auto.
    + exists (x :: l1), l2, l3. repeat split; try constructor; auto.
Qed.

Section Search.
  Variable key : bytes.
  Variables l1 l2 l3 : list hdr.
  Hypothesis HS : Seg key l1 l2 l3.
  Local Notation tbl := (l1 ++ l2 ++ l3).
  Local Notation n1 := (length l1).
  Local Notation n2 := (length l2).

  Lemma nth_seg i h : nth_error tbl i = Some h ->
    (i < n1 /\ cmpk key h = Gt) \/ (n1 <= i < n1 + n2 /\ cmpk key h = Eq) \/ (n1 + n2 <= i /\ cmpk key h = Lt).
  Proof.
    destruct HS as (H1 & H2 & H3). intros Hn.
    destruct (Nat.lt_ge_cases i (length l1)) as [Hi|Hi].
    - left. split; [exact Hi|]. rewrite nth_error_app1 in Hn by exact Hi.
      rewrite Forall_forall in H1. apply H1. eapply nth_error_In; eauto.
    - right. rewrite nth_error_app2 in Hn by exact Hi.
      destruct (Nat.lt_ge_cases (i - length l1) (length l2)) as [Hj|Hj].
      + left. split; [lia|]. rewrite nth_error_app1 in Hn by exact Hj.
        rewrite Forall_forall in H2. apply H2. eapply nth_error_In; eauto.
      + right. split; [lia|]. rewrite nth_error_app2 in Hn by exact Hj.
        rewrite Forall_forall in H3. apply H3. eapply nth_error_In; eauto.
  Qed.

  Lemma nth_in_range i : i < length tbl -> exists h, nth_error tbl i = Some h.
  Proof.
    intros Hi. destruct (nth_error tbl i) eqn:E; [eauto|].
    apply nth_error_None in E. lia.
  Qed.

  (* the binary search proper *)
  Lemma bs_loop_spec : forall fuel lo hi,
    lo <= n1 -> n1 + n2 <= hi + 1 -> hi < length tbl -> hi + 1 - lo < fuel ->
    exists r, bs_loop fuel tbl key lo hi = Some r /\
              (n2 = 0 -> r = None) /\
              (n2 <> 0 -> exists mi, r = Some mi /\ n1 <= mi < n1 + n2).
  Proof.
    induction fuel as [|f IH]; intros lo hi Hlo Hhi Hlen Hf; [lia|].
    cbn [bs_loop]. destruct (Nat.ltb hi lo) eqn:E.
    - apply Nat.ltb_lt in E. exists None. split; [reflexivity|]. split; [reflexivity | intros; lia].
    - apply Nat.ltb_ge in E.
      set (mi := lo + (hi - lo) / 2).
      assert (Hmi : lo <= mi <= hi).
      { unfold mi. pose proof (Nat.div_le_upper_bound (hi - lo) 2 (hi - lo)).
        assert ((hi - lo) / 2 <= hi - lo) by (apply Nat.div_le_upper_bound; lia). lia. }
      destruct (nth_in_range mi) as [h Hh]; [lia|]. rewrite Hh.
      destruct (nth_seg mi h Hh) as [[Hi Hc]|[[Hi Hc]|[Hi Hc]]]; unfold cmpk in Hc; rewrite Hc.
      + apply IH; lia.
      + exists (Some mi). split; [reflexivity|]. split; [intros; lia|]. intros _. exists mi. split; [reflexivity|lia].
      + destruct (Nat.ltb 0 mi) eqn:E0.
        * apply Nat.ltb_lt in E0. apply IH; lia.
        * apply Nat.ltb_ge in E0. exists None. split; [reflexivity|]. split; [reflexivity | intros; lia].
  Qed.

  Lemma walk_down_spec : forall mi, n1 <= mi <= n1 + n2 -> mi <= length tbl ->
    walk_down tbl key mi = Some n1.
  Proof.
    induction mi as [|b IH]; intros Hr Hl.
    - cbn. f_equal. lia.
    - cbn [walk_down]. destruct (nth_in_range b) as [h Hh]; [lia|]. rewrite Hh.
      destruct (nth_seg b h Hh) as [[Hi Hc]|[[Hi Hc]|[Hi Hc]]]; unfold cmpk in Hc;
        unfold caseeq; rewrite Hc.
      + f_equal. lia.
      + apply IH; lia.
      + lia.
  Qed.

  Lemma walk_up_spec : forall fuel e, n1 <= e <= n1 + n2 -> length tbl - e < fuel ->
    walk_up fuel tbl key e = Some (n1 + n2).
  Proof.
    induction fuel as [|f IH]; intros e Hr Hf; [lia|].
    cbn [walk_up]. destruct (Nat.ltb e (length tbl)) eqn:E.
    - apply Nat.ltb_lt in E. destruct (nth_in_range e E) as [h Hh]. rewrite Hh.
      destruct (nth_seg e h Hh) as [[Hi Hc]|[[Hi Hc]|[Hi Hc]]]; unfold cmpk in Hc;
        unfold caseeq; rewrite Hc.
      + lia.
      + apply IH; lia.
      + f_equal. lia.
    - apply Nat.ltb_ge in E. f_equal.
      assert (length tbl = n1 + n2 + length l3).
      { rewrite !app_length. lia. }
      lia.
  Qed.

End Search.

Theorem searchheader_seg key l1 l2 l3 : Seg key l1 l2 l3 ->
  searchheader (l1 ++ l2 ++ l3) key =
  match l2 with [] => SNotFound | _ => SFound (length l1) (length l2) end.
Proof.
  intros HS.
  assert (Hlen : length (l1 ++ l2 ++ l3) = length l1 + length l2 + length l3) by (rewrite !app_length; lia).
  pose proof (bs_loop_spec key l1 l2 l3 HS) as BS.
  pose proof (walk_down_spec key l1 l2 l3 HS) as WD.
  pose proof (walk_up_spec key l1 l2 l3 HS) as WU.
  unfold searchheader. remember (l1 ++ l2 ++ l3) as t eqn:Et.
  destruct t as [|x t'].
  - destruct l2; [reflexivity|]. exfalso. cbn in Hlen. lia.
  - assert (Hpos : 0 < length (l1 ++ l2 ++ l3)) by (rewrite <- Et; cbn; lia).
    rewrite Et in *. clear Et x t'. set (t := l1 ++ l2 ++ l3) in *.
    destruct (BS (S (length t)) 0 (length t - 1)) as (r & Hr & Hn & Hy); try lia.
    rewrite Hr. destruct (length l2) as [|k] eqn:El2.
    + rewrite (Hn eq_refl). destruct l2; [reflexivity | discriminate].
    + destruct Hy as (mi & -> & Hmi); [lia|].
      rewrite WD by lia. rewrite WU by lia.
      destruct l2; [discriminate|]. f_equal. lia.
Qed.


(* consequences on key-sorted tables *)
Lemma seg_filter key l1 l2 l3 : Seg key l1 l2 l3 -> filter (keq key) (l1 ++ l2 ++ l3) = l2.
Proof.
  intros (H1 & H2 & H3). rewrite !filter_app.
  assert (filter (keq key) l1 = []) as ->.
  { induction H1 as [|h l Hh _ IH]; [reflexivity|]. cbn. unfold keq, caseeq. unfold cmpk in Hh. rewrite Hh. exact IH. }
  assert (filter (keq key) l3 = []) as ->.
  { induction H3 as [|h l Hh _ IH]; [reflexivity|]. cbn. unfold keq, caseeq. unfold cmpk in Hh. rewrite Hh. exact IH. }
  assert (filter (keq key) l2 = l2) as ->.
  { induction H2 as [|h l Hh _ IH]; [reflexivity|]. cbn. unfold keq, caseeq. unfold cmpk in Hh. rewrite Hh. f_equal. exact IH. }
  rewrite app_nil_r. reflexivity.
Qed.

Lemma run_of_seg {A} (l1 l2 l3 : list A) : firstn (length l2) (skipn (length l1) (l1 ++ l2 ++ l3)) = l2.
Proof.
  rewrite skipn_app, Nat.sub_diag, skipn_all. cbn [skipn app].
  rewrite firstn_app, Nat.sub_diag, firstn_all. cbn [firstn]. apply app_nil_r.
Qed.

(* On a key-sorted table, message_get_header returns the values of exactly the fields whose name
   equals the requested one case-insensitively, in table order - or NULL if there is none. *)
Theorem get_header_sorted tbl name : SortedK tbl ->
  get_header tbl name =
  match filter (keq name) tbl with
  | [] => None
  | l => Some (map (fun h => decodeheader (h_val h)) l)
  end.
Proof.
  intros Hs. destruct (sorted_seg name tbl Hs) as (l1 & l2 & l3 & -> & HS).
  unfold get_header. rewrite (searchheader_seg name l1 l2 l3 HS).
  rewrite (seg_filter name l1 l2 l3 HS).
  destruct l2 as [|y l2']; [reflexivity|].
  unfold run_of. rewrite run_of_seg. reflexivity.
Qed.

(* the index-level search never reads outside the table *)
Theorem searchheader_in_bounds tbl name : SortedK tbl -> searchheader tbl name <> SOOB.
Proof.
  intros Hs. destruct (sorted_seg name tbl Hs) as (l1 & l2 & l3 & -> & HS).
  rewrite (searchheader_seg name l1 l2 l3 HS). destruct l2; discriminate.
Qed.
