(* C11 - body and attachment conditions operate on the decoded MIME content.   (PARTIAL)
   Proved: which part's body is used (multipart/alternative: first text/plain, else first text/html,
   else the raw body; otherwise the message itself), how it is decoded (exact CTE value; base64 = RFC
   4648 by C16; undecodable base64 = error), that MIME errors make the body an error, the depth
   limit, and the exists / for-each semantics of attachment conditions and blocks.
   NOT proved: the flattening theorem (attachments (render_mime t) = pre-order list of the parts of t);
   it is checked by the correspondence of harness/c11.py against generated trees with ground truth. *)
From MD Require Import Bytes Generated DecodeDefs DecodeSpec HeaderDefs MimeDefs MimeProofs.

Theorem C11_body_not_alternative : forall m, is_content_type m s_mp_alt = false -> get_body m = decode_body m.
Proof. exact get_body_not_alternative. Qed.
Print Assumptions C11_body_not_alternative.

Theorem C11_body_choice : forall m atts, is_content_type m s_mp_alt = true -> get_attachments m = AOk atts ->
  get_body m = match find_type s_text_plain atts with
               | Some a => decode_body a
               | None => match find_type s_text_html atts with
                         | Some a => decode_body a
                         | None => BOk (m_body m)
                         end
               end.
Proof. exact get_body_alternative. Qed.
Print Assumptions C11_body_choice.

Theorem C11_body_error_on_bad_mime : forall m,
  is_content_type m s_mp_alt = true -> get_attachments m = AErr -> get_body m = BNull.
Proof. exact get_body_alternative_error. Qed.
Print Assumptions C11_body_error_on_bad_mime.

Theorem C11_decoding : forall a,
  decode_body a =
  match get_header1 (m_headers a) s_cte with
  | Some enc =>
      if beq_bytes enc s_base64 then match spec_b64 (m_body a) with Some d => BOk (cview d) | None => BNull end
      else if beq_bytes enc s_qp then BOk (cview (qp_decode false (m_body a)))
      else BOk (m_body a)
  | None => BOk (m_body a)
  end.
Proof. exact decode_body_spec. Qed.
Print Assumptions C11_decoding.

Theorem C11_depth_error : forall m, parseattachments 0 m = AErr.
Proof. exact depth_exhausted. Qed.
Print Assumptions C11_depth_error.

Theorem C11_attachment_condition_is_exists : forall f atts,
  attachment_cond f atts = RMatch <->
  exists pre a post, atts = pre ++ a :: post /\ f a = RMatch /\ Forall (fun x => f x = RNoMatch) pre.
Proof. exact attachment_cond_spec. Qed.
Print Assumptions C11_attachment_condition_is_exists.

Theorem C11_attachment_block_error : forall f atts acc,
  (exists a, In a atts /\ f a = RError) -> attachment_block f atts acc = RError.
Proof. exact attachment_block_error. Qed.
Print Assumptions C11_attachment_block_error.
