(* C17 for any number of parties and every schedule.  See ConcNDefs for the construction: each party, looked at
   through its own three names, moves inside a finite table (its own steps plus "somebody else removed the
   message"); the message's name goes from present to absent exactly once, by exactly one party's successful call. *)
From Coq Require Import List Bool Arith NArith PArith FMapPositive Lia.
Import ListNotations.
From MD Require Import IODefs ConcDefs ConcProofs ConcNDefs.

(* ---- lists ------------------------------------------------------------------------------------------------------ *)
Lemma gset_length : forall w i v, length (gset w i v) = length w.
Proof. induction w as [|x r IH]; intros [|i] v; cbn [gset length]; try reflexivity. rewrite IH. reflexivity. Qed.

Lemma gget_gset_same : forall w i v, i < length w -> gget (gset w i v) i = v.
Proof.
  unfold gget. induction w as [|x r IH]; intros i v Hi; cbn [length] in Hi; [lia|].
  destruct i as [|i]; cbn [gset nth]; [reflexivity|]. apply IH. lia.
Qed.

Lemma geffect_length w p o r : length (geffect w p o r) = length w.
Proof.
  unfold geffect. destruct o; destruct r; try reflexivity;
    repeat match goal with
           | |- context [match gget ?w ?i with _ => _ end] => destruct (gget w i)
           | |- context [if bound ?w ?i then _ else _] => destruct (bound w i)
           end; rewrite ?gset_length; reflexivity.
Qed.

Lemma three_list (l : gworld) : length l = 3 -> l = [gget l 0; gget l 1; gget l 2].
Proof. destruct l as [|a [|b [|c [|d r]]]]; cbn [length]; intros H; try lia. reflexivity. Qed.

Lemma set_nth_length {A} : forall (l : list A) i v, length (set_nth l i v) = length l.
Proof. induction l as [|x r IH]; intros [|i] v; cbn [set_nth length]; try reflexivity. rewrite IH. reflexivity. Qed.

Lemma nth_set_nth_same {A} : forall (l : list A) i v d, i < length l -> nth i (set_nth l i v) d = v.
Proof.
  induction l as [|x r IH]; intros i v d Hi; cbn [length] in Hi; [lia|].
  destruct i as [|i]; cbn [set_nth nth]; [reflexivity|]. apply IH. lia.
Qed.

Lemma nth_set_nth_other {A} : forall (l : list A) i j v d, i <> j -> nth j (set_nth l i v) d = nth j l d.
Proof.
  induction l as [|x r IH]; intros i j v d Hij; [destruct i; reflexivity|].
  destruct i as [|i], j as [|j]; cbn [set_nth nth]; try reflexivity; [contradiction|]. apply IH. lia.
Qed.

Lemma nth_error_set_nth_same {A} : forall (l : list A) i v, i < length l -> nth_error (set_nth l i v) i = Some v.
Proof.
  induction l as [|x r IH]; intros i v Hi; cbn [length] in Hi; [lia|].
  destruct i as [|i]; cbn [set_nth nth_error]; [reflexivity|]. apply IH. lia.
Qed.

Lemma nth_error_set_nth_other {A} : forall (l : list A) i j v, i <> j -> nth_error (set_nth l i v) j = nth_error l j.
Proof.
  induction l as [|x r IH]; intros i j v Hij; [destruct i; reflexivity|].
  destruct i as [|i], j as [|j]; cbn [set_nth nth_error]; try reflexivity; [contradiction|]. apply IH. lia.
Qed.

Lemma nth_error_nth' {A} (l : list A) i x d : nth_error l i = Some x -> nth i l d = x.
Proof. revert i. induction l as [|y r IH]; intros [|i] H; cbn in *; try discriminate H; [inversion H; reflexivity|apply IH; exact H]. Qed.

Lemma nth_repeat_same {A} (x : A) n i : nth i (repeat x n) x = x.
Proof. revert i. induction n as [|n IH]; intros [|i]; cbn; try reflexivity. apply IH. Qed.

Lemma nth_error_combine {A B} : forall (l1 : list A) (l2 : list B) i a b,
  nth_error (combine l1 l2) i = Some (a, b) <-> nth_error l1 i = Some a /\ nth_error l2 i = Some b.
Proof.
  induction l1 as [|x r IH]; intros l2 i a b.
  - cbn [combine]. destruct i; cbn; split; [discriminate|intros [H _]; discriminate H|discriminate|intros [H _]; discriminate H].
  - destruct l2 as [|y t].
    + cbn [combine]. destruct i; cbn; split; try discriminate; intros [_ H]; discriminate H.
    + cbn [combine]. destruct i as [|i]; cbn [nth_error].
      * split; [intros H; inversion H; split; reflexivity|intros [H1 H2]; inversion H1; inversion H2; reflexivity].
      * apply IH.
Qed.

Lemma in_combine_seq {B} : forall (l : list B) a p x, In (p, x) (combine (seq a (length l)) l) -> a <= p /\ nth_error l (p - a) = Some x.
Proof.
  induction l as [|y r IH]; intros a p x H; cbn [length seq combine In] in H; [contradiction|].
  destruct H as [H|H].
  - inversion H; subst. split; [lia|]. rewrite Nat.sub_diag. reflexivity.
  - apply IH in H. destruct H as [H1 H2]. split; [lia|]. replace (p - a) with (S (p - S a)) by lia. exact H2.
Qed.

(* ---- a closed table contains every state of the party-plus-environment system ------------------------------------- *)
Inductive lreach (k : pkind) : gstate -> Prop :=
| lr_init : lreach k linit
| lr_own ls ls' : lreach k ls -> lown k ls = Some ls' -> lreach k ls'
| lr_env ls : lreach k ls -> lreach k (lenv ls).

Lemma tmemK_in kf t s : tmemK kf t s = true -> In s (states_of t).
Proof.
  unfold tmemK, states_of. destruct (PositiveMap.find (kf s) t) as [s'|] eqn:E; [|intros H; discriminate H].
  intros H. apply gstate_eqb_eq in H. subst s'.
  apply PositiveMap.elements_correct in E. apply in_map_iff. exists (kf s, s). split; [reflexivity|exact E].
Qed.

Lemma lreach_in_table k ls : closedK (lsuccs k) lkey linit (ltable k) = true -> lreach k ls -> tmemK lkey (ltable k) ls = true.
Proof.
  intros Hc. unfold closedK in Hc. apply andb_prop in Hc. destruct Hc as [Hi Hc]. rewrite forallb_forall in Hc.
  induction 1 as [|ls ls' _ IH Hs|ls _ IH].
  - exact Hi.
  - specialize (Hc ls (tmemK_in _ _ _ IH)). rewrite forallb_forall in Hc. apply Hc. unfold lsuccs. rewrite Hs. left. reflexivity.
  - specialize (Hc ls (tmemK_in _ _ _ IH)). rewrite forallb_forall in Hc. apply Hc. unfold lsuccs. apply in_or_app. right. left. reflexivity.
Qed.

Lemma lreach_checked k ls : lcheck_all k = true -> lreach k ls -> lcheck k ls = true.
Proof.
  intros H Hr. unfold lcheck_all in H. apply andb_prop in H. destruct H as [Hc Ha].
  rewrite forallb_forall in Ha. apply Ha. eapply tmemK_in. apply lreach_in_table; eassumption.
Qed.

Lemma all_kinds_checked : forallb lcheck_all all_kinds = true.
Proof. vm_compute. reflexivity. Qed.

(* ---- a call seen through the caller's three names ------------------------------------------------------------------- *)
Definition view (w : gworld) (q : nat) (n : name) : option data := gget w (slot q n).
Definition vbound (v : name -> option data) (n : name) : bool := match v n with Some _ => true | None => false end.
Definition vupd (v : name -> option data) (n : name) (x : option data) : name -> option data :=
  fun m => if name_eqb m n then x else v m.

Definition voutcome (xdev : bool) (v : name -> option data) (o : op) : outcome :=
  match o with
  | Stat n | Utimens n | Unlink n | OpenR n => if vbound v n then Ok else Fail
  | Rename a b => if vbound v a then (if xdev then Exdev else Ok) else Fail
  | Creat n => if vbound v n then Fail else Ok
  | _ => Ok
  end.

Definition veffect (v : name -> option data) (o : op) (r : outcome) : name -> option data :=
  match o, r with
  | Creat n, Ok => vupd v n (Some Empty)
  | Rename a b, Ok => match v a with
                      | Some d => vupd (vupd v b (Some d)) a None
                      | None => v
                      end
  | Write n _, _ => if vbound v n then vupd v n (Some Partial) else v
  | Flush n x, Ok => if vbound v n then vupd v n (Some (Complete x)) else v
  | Unlink n, Ok => vupd v n None
  | _, _ => v
  end.

Lemma outcome_view xdev w q o : outcome_in xdev w q o = voutcome xdev (view w q) o.
Proof. destruct o; reflexivity. Qed.

Lemma voutcome_ext xdev v v' o : (forall n, v n = v' n) -> voutcome xdev v o = voutcome xdev v' o.
Proof. intros H. destruct o; cbn [voutcome]; unfold vbound; rewrite ?H; reflexivity. Qed.

Lemma veffect_ext v v' o r m : (forall n, v n = v' n) -> veffect v o r m = veffect v' o r m.
Proof.
  intros H. destruct o; destruct r; cbn [veffect]; unfold vbound, vupd; rewrite ?H; try reflexivity;
    repeat match goal with |- context [match v' ?a with _ => _ end] => destruct (v' a) end; rewrite ?H; reflexivity.
Qed.

Lemma slot_inj q m n : slot q m = slot q n -> m = n.
Proof. destruct m, n; cbn [slot]; intros H; try reflexivity; lia. Qed.

Lemma view_gset w q n x m : slot q n < length w -> view (gset w (slot q n) x) q m = vupd (view w q) n x m.
Proof.
  intros Hl. unfold view, vupd. destruct (name_eqb m n) eqn:E.
  - assert (m = n) by (destruct m, n; try discriminate E; reflexivity). subst m. apply gget_gset_same. exact Hl.
  - apply gget_gset_other. intros Hs. apply slot_inj in Hs. subst m. destruct n; discriminate E.
Qed.

Lemma effect_view w q o r m : (forall n, slot q n < length w) -> view (geffect w q o r) q m = veffect (view w q) o r m.
Proof.
  intros Hl. unfold geffect, veffect, vbound, bound. fold (view w q).
  destruct o as [|n|n|a b| | |n x|n x|n|n|n|n|n|n]; destruct r; try reflexivity;
    try (change (gget w (slot q n)) with (view w q n); destruct (view w q n); try reflexivity);
    try (apply view_gset; apply Hl).
  change (gget w (slot q a)) with (view w q a). destruct (view w q a) as [d|]; [|reflexivity].
  rewrite view_gset by (rewrite gset_length; apply Hl). unfold vupd. destruct (name_eqb m a); [reflexivity|].
  apply (view_gset w q b (Some d) m). apply Hl.
Qed.

(* the caller's view of its own world of three names *)
Lemma view_proj s q m : view (g_world (proj s q)) 0 m = view (g_world s) q m.
Proof. destruct m; reflexivity. Qed.

(* ---- the shared name: only removed, and only by a successful rename / unlink of it --------------------------------------- *)
Lemma veffect_src v o r : src_safe o = true -> veffect v o r Src = if rem o r then None else v Src.
Proof.
  intros Hs. destruct o as [|n|n|a b| | |n x|n x|n|n|n|n|n|n];
    try solve [destruct r; cbn [veffect rem]; try reflexivity;
               destruct n; cbn [src_safe] in Hs; try discriminate Hs; unfold vbound, vupd; cbn [name_eqb];
               repeat match goal with |- context [match v ?a with _ => _ end] => destruct (v a) end; reflexivity].
  destruct a, b; cbn [src_safe] in Hs; try discriminate Hs; destruct r; cbn [veffect rem]; unfold vupd; cbn [name_eqb];
    repeat match goal with |- context [match v ?a with _ => _ end] => destruct (v a) eqn:? end; try reflexivity; try congruence.
Qed.

Lemma src_effect w q o r : src_safe o = true -> (forall n, slot q n < length w) ->
  gget (geffect w q o r) 0 = if rem o r then None else gget w 0.
Proof. intros Hs Hl. change (view (geffect w q o r) q Src = if rem o r then None else view w q Src). rewrite effect_view by exact Hl. apply veffect_src. exact Hs. Qed.

Lemma rem_bound xdev w q o : rem o (outcome_in xdev w q o) = true -> bound w 0 = true /\ outcome_in xdev w q o = Ok.
Proof.
  destruct o as [|n|n|a b| | |n x|n x|n|n|n|n|n|n]; cbn [outcome_in rem]; try discriminate.
  - destruct a; try discriminate. cbn [slot]. destruct (bound w 0); [|discriminate]. destruct xdev; [discriminate|]. auto.
  - destruct n; try (destruct (bound w _); discriminate). cbn [slot]. destruct (bound w 0); [auto|discriminate].
Qed.

Lemma took_snoc : forall h p r, took_along p (h ++ [r]) = took_along p h || match replay p h with Call o _ => rem o r | Ret _ => false end.
Proof.
  induction h as [|x t IH]; intros p r; cbn [app took_along replay].
  - destruct p as [st|o c]; [reflexivity|]. simpl. destruct (c r), (rem o r); reflexivity.
  - destruct p as [st|o c]; [reflexivity|]. cbn [took_along replay]. rewrite IH, orb_assoc. reflexivity.
Qed.

(* ---- one step of the whole system, seen by the party that makes it ------------------------------------------------------- *)
Lemma slot_bound (kinds : list pkind) (w : gworld) q n : length w = 1 + 2 * length kinds -> q < length kinds -> slot q n < length w.
Proof. intros Hw Hq. destruct n; cbn [slot]; lia. Qed.

Lemma own_step kinds s q s' : length (g_world s) = 1 + 2 * length kinds -> length (g_hist s) = length kinds ->
  gstep kinds s q = Some s' ->
  exists k h o c, nth_error kinds q = Some k /\ nth_error (g_hist s) q = Some h /\ replay (kprog k) h = Call o c /\
    s' = mkg (geffect (g_world s) q o (outcome_in (is_xdev k) (g_world s) q o))
             (set_nth (g_hist s) q (h ++ [outcome_in (is_xdev k) (g_world s) q o])) /\
    lown k (proj s q) = Some (proj s' q).
Proof.
  intros Hw Hh H. unfold gstep in H.
  destruct (nth_error kinds q) as [k|] eqn:Ek; [|discriminate H].
  destruct (nth_error (g_hist s) q) as [h|] eqn:Eh; [|discriminate H].
  destruct (replay (kprog k) h) as [st|o c] eqn:Er; [discriminate H|].
  inversion H; subst s'; clear H.
  exists k, h, o, c. repeat split; try assumption.
  assert (Hq : q < length kinds) by (apply nth_error_Some; rewrite Ek; discriminate).
  assert (Hl : forall n, slot q n < length (g_world s)) by (intros n; eapply slot_bound; eassumption).
  set (r := outcome_in (is_xdev k) (g_world s) q o).
  unfold lown, gstep. cbn [nth_error proj g_hist g_world].
  rewrite (nth_error_nth' _ _ _ [] Eh), Er.
  set (lw := [gget (g_world s) 0; gget (g_world s) (1 + 2 * q); gget (g_world s) (2 + 2 * q)]).
  assert (Hv : forall n, view lw 0 n = view (g_world s) q n) by (intros n; destruct n; reflexivity).
  assert (Hr : outcome_in (is_xdev k) lw 0 o = r).
  { unfold r. rewrite !outcome_view. apply voutcome_ext. exact Hv. }
  rewrite Hr. unfold proj. cbn [g_world g_hist]. f_equal. f_equal.
  - rewrite (three_list (geffect lw 0 o r)) by (rewrite geffect_length; reflexivity).
    assert (Hc : forall m, view (geffect lw 0 o r) 0 m = view (geffect (g_world s) q o r) q m).
    { intros m. rewrite effect_view by (intros n; destruct n; cbn; lia). rewrite effect_view by exact Hl.
      apply veffect_ext. exact Hv. }
    pose proof (Hc Src) as H0. pose proof (Hc Dst) as H1. pose proof (Hc New) as H2.
    unfold view in H0, H1, H2. cbn [slot Nat.mul Nat.add] in H0, H1, H2.
    cbn [Nat.mul Nat.add]. rewrite H0, H1, H2. cbn [slot]. reflexivity.
  - cbn [set_nth]. rewrite nth_set_nth_same by lia. reflexivity.
Qed.

(* ---- the invariant of the whole system -------------------------------------------------------------------------------------- *)
Definition tookp (kinds : list pkind) (hist : list (list outcome)) (p : nat) : bool :=
  match nth_error kinds p, nth_error hist p with
  | Some k, Some h => took k h
  | _, _ => false
  end.

Record Inv (kinds : list pkind) (s : gstate) : Prop := mkInv {
  i_wlen : length (g_world s) = 1 + 2 * length kinds;
  i_hlen : length (g_hist s) = length kinds;
  i_src : gget (g_world s) 0 = Some (Complete 0) \/ gget (g_world s) 0 = None;
  i_local : forall p k, nth_error kinds p = Some k -> lreach k (proj s p);
  i_took : (bound (g_world s) 0 = true /\ forall p, tookp kinds (g_hist s) p = false) \/
           (bound (g_world s) 0 = false /\
            exists p0, tookp kinds (g_hist s) p0 = true /\ forall p, p <> p0 -> tookp kinds (g_hist s) p = false) }.

Lemma inv_init kinds : Inv kinds (init_state (length kinds)).
Proof.
  unfold init_state, init_world. constructor; cbn [g_world g_hist].
  - cbn [length]. rewrite repeat_length. lia.
  - apply repeat_length.
  - left. reflexivity.
  - intros p k Hk. unfold proj. cbn [g_world g_hist]. unfold gget. cbn [Nat.add nth].
    rewrite !nth_repeat_same. apply lr_init.
  - left. split; [reflexivity|]. intros p. unfold tookp. destruct (nth_error kinds p) as [k|]; [|reflexivity].
    destruct (nth_error (repeat [] (length kinds)) p) as [h|] eqn:E; [|reflexivity].
    apply nth_error_In in E. apply repeat_spec in E. subst h. reflexivity.
Qed.

Lemma inv_step kinds s q s' : (forall k, In k kinds -> lcheck_all k = true) -> Inv kinds s -> gstep kinds s q = Some s' -> Inv kinds s'.
Proof.
  intros Hck [Hw Hh Hsrc Hloc Htk] Hs.
  destruct (own_step kinds s q s' Hw Hh Hs) as (k & h & o & c & Ek & Eh & Er & Es' & Hown).
  set (r := outcome_in (is_xdev k) (g_world s) q o) in *.
  assert (Hq : q < length kinds) by (apply nth_error_Some; rewrite Ek; discriminate).
  assert (Hl : forall n, slot q n < length (g_world s)) by (intros n; eapply slot_bound; eassumption).
  (* the call is one the party's table knows: it does not create or modify the shared name *)
  assert (Hsafe : src_safe o = true).
  { pose proof (lreach_checked k _ (Hck k (nth_error_In _ _ Ek)) (Hloc q k Ek)) as Hc.
    unfold lcheck in Hc. unfold lhist, proj in Hc. cbn [g_hist g_world nth] in Hc.
    rewrite (nth_error_nth' _ _ _ [] Eh), Er in Hc. exact Hc. }
  pose proof (src_effect (g_world s) q o r Hsafe Hl) as Hsrc'.
  subst s'. constructor; cbn [g_world g_hist].
  - rewrite geffect_length. exact Hw.
  - rewrite set_nth_length. exact Hh.
  - rewrite Hsrc'. destruct (rem o r); [right; reflexivity|exact Hsrc].
  - intros p k' Ek'. destruct (Nat.eq_dec p q) as [->|Hpq].
    + rewrite Ek in Ek'. inversion Ek'; subst k'. eapply lr_own; [apply Hloc; exact Ek|exact Hown].
    + specialize (Hloc p k' Ek').
      assert (Hp : proj (mkg (geffect (g_world s) q o r) (set_nth (g_hist s) q (h ++ [r]))) p =
                   if rem o r then lenv (proj s p) else proj s p).
      { unfold proj, lenv. cbn [g_world g_hist gset].
        rewrite (nth_set_nth_other _ q p) by (intros E; apply Hpq; symmetry; exact E).
        change (1 + 2 * p) with (slot p Dst). change (2 + 2 * p) with (slot p New).
        rewrite !(others_names_untouched _ q p) by (try (intros E; apply Hpq; symmetry; exact E); discriminate).
        rewrite Hsrc'. destruct (rem o r); reflexivity. }
      rewrite Hp. destruct (rem o r); [apply lr_env|]; exact Hloc.
  - assert (Hother : forall p, p <> q -> tookp kinds (set_nth (g_hist s) q (h ++ [r])) p = tookp kinds (g_hist s) p).
    { intros p Hp. unfold tookp. rewrite nth_error_set_nth_other by (intros E; apply Hp; symmetry; exact E). reflexivity. }
    assert (Hself : tookp kinds (set_nth (g_hist s) q (h ++ [r])) q = tookp kinds (g_hist s) q || rem o r).
    { unfold tookp. rewrite Ek, Eh, nth_error_set_nth_same by lia. unfold took. rewrite took_snoc, Er. reflexivity. }
    unfold bound. rewrite Hsrc'. destruct (rem o r) eqn:Erem.
    + (* this call removed the message: it was there, nobody had removed it before *)
      destruct (rem_bound _ _ _ _ Erem) as [Hb _].
      destruct Htk as [[_ Hnone]|[Hb' _]]; [|rewrite Hb in Hb'; discriminate Hb'].
      right. split; [reflexivity|]. exists q. split; [rewrite Hself; apply orb_true_r|].
      intros p Hp. rewrite Hother by exact Hp. apply Hnone.
    + fold (bound (g_world s) 0). destruct Htk as [[Hb Hnone]|[Hb (p0 & Hp0 & Hrest)]].
      * left. split; [exact Hb|]. intros p. destruct (Nat.eq_dec p q) as [->|Hp]; [rewrite Hself, Hnone; reflexivity|].
        rewrite Hother by exact Hp. apply Hnone.
      * right. split; [exact Hb|]. exists p0. split.
        -- destruct (Nat.eq_dec p0 q) as [->|Hp]; [rewrite Hself, Hp0; reflexivity|rewrite Hother by exact Hp; exact Hp0].
        -- intros p Hp. destruct (Nat.eq_dec p q) as [->|Hpq]; [rewrite Hself, (Hrest q Hp); reflexivity|].
           rewrite Hother by exact Hpq. apply Hrest. exact Hp.
Qed.

Lemma inv_run kinds : (forall k, In k kinds -> lcheck_all k = true) -> forall sched s, Inv kinds s -> Inv kinds (grun kinds s sched).
Proof.
  intros Hck. induction sched as [|p t IH]; intros s Hi; cbn [grun]; [exact Hi|].
  destruct (gstep kinds s p) as [s'|] eqn:E; [|apply IH; exact Hi].
  apply IH. eapply inv_step; eassumption.
Qed.

(* ---- counting the intact copies -------------------------------------------------------------------------------------------------- *)
Lemma count_zero (w : gworld) : (forall i, is_complete (gget w i) = false) -> count_complete w = 0.
Proof.
  unfold count_complete. induction w as [|x r IH]; intros H; [reflexivity|]. cbn [filter].
  pose proof (H 0) as H0. unfold gget in H0. cbn [nth] in H0. rewrite H0. apply IH. intros i. exact (H (S i)).
Qed.

Lemma count_single : forall (w : gworld) a, a < length w -> is_complete (gget w a) = true ->
  (forall i, i <> a -> is_complete (gget w i) = false) -> count_complete w = 1.
Proof.
  unfold count_complete. induction w as [|x r IH]; intros a Ha Hc Ho; cbn [length] in Ha; [lia|].
  cbn [filter]. destruct a as [|a].
  - unfold gget in Hc. cbn [nth] in Hc. rewrite Hc. cbn [length]. f_equal.
    apply (count_zero r). intros i. apply (Ho (S i)). lia.
  - pose proof (Ho 0 ltac:(lia)) as H0. unfold gget in H0. cbn [nth] in H0. rewrite H0.
    apply (IH a); [lia|exact Hc|]. intros i Hi. apply (Ho (S i)). lia.
Qed.

Lemma no_junk (w : gworld) : (forall i, is_junk (gget w i) = false) -> existsb is_junk w = false.
Proof.
  induction w as [|x r IH]; intros H; [reflexivity|]. cbn [existsb].
  pose proof (H 0) as H0. unfold gget in H0. cbn [nth] in H0. rewrite H0. apply IH. intros i. exact (H (S i)).
Qed.

Lemma idx_cases i : i = 0 \/ exists p, i = 1 + 2 * p \/ i = 2 + 2 * p.
Proof.
  destruct i as [|j]; [left; reflexivity|]. right. exists (j / 2).
  pose proof (Nat.div_mod j 2 ltac:(lia)) as H. pose proof (Nat.mod_upper_bound j 2 ltac:(lia)) as Hm. lia.
Qed.

Lemma gget_overflow (w : gworld) i : length w <= i -> gget w i = None.
Proof. intros H. unfold gget. apply nth_overflow. exact H. Qed.

(* ---- what a finished party has left behind ---------------------------------------------------------------------------------------- *)
Lemma finished_party kinds s p k h : finished kinds s = true -> nth_error kinds p = Some k -> nth_error (g_hist s) p = Some h ->
  exists st, replay (kprog k) h = Ret st.
Proof.
  intros Hf Ek Eh. unfold finished in Hf. rewrite forallb_forall in Hf.
  assert (Hp : In p (seq 0 (length kinds))) by (apply in_seq; split; [lia|]; cbn; apply nth_error_Some; rewrite Ek; discriminate).
  specialize (Hf p Hp). unfold gstep in Hf. rewrite Ek, Eh in Hf.
  destruct (replay (kprog k) h) as [st|o c]; [exists st; reflexivity|discriminate Hf].
Qed.

Lemma party_facts kinds s p k h st : (forall k, In k kinds -> lcheck_all k = true) -> Inv kinds s ->
  nth_error kinds p = Some k -> nth_error (g_hist s) p = Some h -> replay (kprog k) h = Ret st ->
  let d := gget (g_world s) (1 + 2 * p) in
  let n := gget (g_world s) (2 + 2 * p) in
  is_junk d = false /\ is_junk n = false /\
  (took k h = false -> is_complete d = false /\ is_complete n = false) /\
  (took k h = true -> (is_complete d && is_complete n = false) /\
                      (is_complete d || is_complete n || (is_remover k && Nat.eqb st 0) = true)) /\
  (st = 0 -> match k with
             | KAct ADiscard | KExtDelete | KExtRename => True
             | KAct AWrite => is_complete n = true
             | KAct _ => is_complete d = true
             end).
Proof.
  intros Hck Hi Ek Eh Er d n.
  pose proof (lreach_checked k _ (Hck k (nth_error_In _ _ Ek)) (i_local _ _ Hi p k Ek)) as Hc.
  unfold lcheck in Hc. unfold lhist, proj in Hc. cbn [g_hist g_world nth] in Hc.
  rewrite (nth_error_nth' _ _ _ [] Eh), Er in Hc.
  change (gget [gget (g_world s) 0; gget (g_world s) (1 + 2 * p); gget (g_world s) (2 + 2 * p)] 1) with d in Hc.
  change (gget [gget (g_world s) 0; gget (g_world s) (1 + 2 * p); gget (g_world s) (2 + 2 * p)] 2) with n in Hc.
  apply andb_prop in Hc. destruct Hc as [Hc Hwin]. apply andb_prop in Hc. destruct Hc as [Hc Htk].
  apply andb_prop in Hc. destruct Hc as [Hjd Hjn].
  apply negb_true_iff in Hjd. apply negb_true_iff in Hjn.
  split; [exact Hjd|]. split; [exact Hjn|]. split; [|split].
  - intros Ht. rewrite Ht in Htk. apply andb_prop in Htk. destruct Htk as [A B].
    apply negb_true_iff in A. apply negb_true_iff in B. split; assumption.
  - intros Ht. rewrite Ht in Htk. apply andb_prop in Htk. destruct Htk as [A B]. apply negb_true_iff in A. split; assumption.
  - intros ->. destruct k as [[| | |]| |]; try exact I; exact Hwin.
Qed.

(* ---- the final state --------------------------------------------------------------------------------------------------------------- *)
Theorem inv_final kinds s : (forall k, In k kinds -> lcheck_all k = true) -> Inv kinds s -> finished kinds s = true ->
  final_ok kinds s = true /\ winners_report kinds s = true.
Proof.
  intros Hck Hi Hf. pose proof Hi as [Hw Hh Hsrc Hloc Htk].
  set (w := g_world s) in *.
  assert (PF : forall p, p < length kinds ->
            exists k h st, nth_error kinds p = Some k /\ nth_error (g_hist s) p = Some h /\ replay (kprog k) h = Ret st).
  { intros p Hp. destruct (nth_error kinds p) as [k|] eqn:Ek; [|apply nth_error_None in Ek; lia].
    destruct (nth_error (g_hist s) p) as [h|] eqn:Eh; [|apply nth_error_None in Eh; lia].
    destruct (finished_party _ _ _ _ _ Hf Ek Eh) as (st & Er). exists k, h, st. auto. }
  assert (NJ : forall i, is_junk (gget w i) = false).
  { intros i. destruct (idx_cases i) as [->|(p & [->| ->])].
    - destruct Hsrc as [E|E]; rewrite E; reflexivity.
    - destruct (Nat.lt_ge_cases p (length kinds)) as [Hp|Hp]; [|rewrite gget_overflow by (rewrite Hw; lia); reflexivity].
      destruct (PF p Hp) as (k & h & st & Ek & Eh & Er). exact (proj1 (party_facts _ _ _ _ _ _ Hck Hi Ek Eh Er)).
    - destruct (Nat.lt_ge_cases p (length kinds)) as [Hp|Hp]; [|rewrite gget_overflow by (rewrite Hw; lia); reflexivity].
      destruct (PF p Hp) as (k & h & st & Ek & Eh & Er). exact (proj1 (proj2 (party_facts _ _ _ _ _ _ Hck Hi Ek Eh Er))). }
  assert (NC : forall p, tookp kinds (g_hist s) p = false ->
            is_complete (gget w (1 + 2 * p)) = false /\ is_complete (gget w (2 + 2 * p)) = false).
  { intros p Ht. destruct (Nat.lt_ge_cases p (length kinds)) as [Hp|Hp]; [|rewrite !gget_overflow by (rewrite Hw; lia); split; reflexivity].
    destruct (PF p Hp) as (k & h & st & Ek & Eh & Er). unfold tookp in Ht. rewrite Ek, Eh in Ht.
    exact (proj1 (proj2 (proj2 (party_facts _ _ _ _ _ _ Hck Hi Ek Eh Er))) Ht). }
  split.
  - unfold final_ok. cbv zeta. fold w. rewrite (no_junk _ NJ). cbn [negb andb].
    destruct Htk as [[Hb Hnone]|[Hb (p0 & Hp0 & Hrest)]].
    + (* the message is still under its name: it is the only intact file *)
      assert (count_complete w = 1) as ->.
      { apply (count_single _ 0); [rewrite Hw; lia| |].
        - unfold bound in Hb. destruct Hsrc as [E|E]; rewrite E in *; [reflexivity|discriminate Hb].
        - intros i Hi0. destruct (idx_cases i) as [->|(p & [->| ->])]; [contradiction| |]; apply NC; apply Hnone. }
      reflexivity.
    + (* one party removed it *)
      assert (Hp0' := Hp0). unfold tookp in Hp0'.
      destruct (nth_error kinds p0) as [k0|] eqn:Ek0; [|discriminate Hp0'].
      destruct (nth_error (g_hist s) p0) as [h0|] eqn:Eh0; [|discriminate Hp0'].
      destruct (finished_party _ _ _ _ _ Hf Ek0 Eh0) as (st0 & Er0).
      pose proof (party_facts _ _ _ _ _ _ Hck Hi Ek0 Eh0 Er0) as (_ & _ & _ & T & _). specialize (T Hp0'). destruct T as [T1 T2].
      assert (Hs0 : gget w 0 = None) by (unfold bound in Hb; destruct (gget w 0); [discriminate Hb|reflexivity]).
      assert (Hlt : p0 < length kinds) by (apply nth_error_Some; rewrite Ek0; discriminate).
      fold w in T1, T2.
      destruct (is_complete (gget w (1 + 2 * p0))) eqn:Ed.
      * cbn [andb] in T1.
        assert (count_complete w = 1) as ->.
        { apply (count_single _ (1 + 2 * p0)); [rewrite Hw; lia|exact Ed|].
          intros i Hi0. destruct (idx_cases i) as [->|(p & [->| ->])].
          - rewrite Hs0. reflexivity.
          - apply NC. apply Hrest. lia.
          - destruct (Nat.eq_dec p p0) as [->|Hp]; [exact T1|]. apply NC. apply Hrest. exact Hp. }
        reflexivity.
      * destruct (is_complete (gget w (2 + 2 * p0))) eqn:En.
        -- assert (count_complete w = 1) as ->.
           { apply (count_single _ (2 + 2 * p0)); [rewrite Hw; lia|exact En|].
             intros i Hi0. destruct (idx_cases i) as [->|(p & [->| ->])].
             - rewrite Hs0. reflexivity.
             - destruct (Nat.eq_dec p p0) as [->|Hp]; [exact Ed|]. apply NC. apply Hrest. exact Hp.
             - apply NC. apply Hrest. lia. }
           reflexivity.
        -- cbn [orb] in T2. apply andb_prop in T2. destruct T2 as [Trm Tst]. apply Nat.eqb_eq in Tst. subst st0.
           assert (count_complete w = 0) as ->.
           { apply count_zero. intros i. destruct (idx_cases i) as [->|(p & [->| ->])].
             - rewrite Hs0. reflexivity.
             - destruct (Nat.eq_dec p p0) as [->|Hp]; [exact Ed|]. apply NC. apply Hrest. exact Hp.
             - destruct (Nat.eq_dec p p0) as [->|Hp]; [exact En|]. apply NC. apply Hrest. exact Hp. }
           cbn [Nat.eqb orb andb]. apply existsb_exists. exists (k0, h0). split.
           ++ apply (nth_error_In _ p0). apply nth_error_combine. split; assumption.
           ++ cbn [fst snd]. rewrite Trm. unfold status_of. rewrite Er0. reflexivity.
  - unfold winners_report. rewrite forallb_forall. intros [p [k h]] Hin. fold w.
    assert (Hlen : length kinds = length (combine kinds (g_hist s))) by (rewrite combine_length, Hh, Nat.min_id; reflexivity).
    rewrite Hlen in Hin. apply in_combine_seq in Hin. destruct Hin as [_ Hin]. rewrite Nat.sub_0_r in Hin.
    apply nth_error_combine in Hin. destruct Hin as [Ek Eh].
    destruct (finished_party _ _ _ _ _ Hf Ek Eh) as (st & Er).
    unfold status_of. rewrite Er. destruct st as [|st']; [|reflexivity].
    pose proof (party_facts _ _ _ _ _ _ Hck Hi Ek Eh Er) as (_ & _ & _ & _ & Wn). specialize (Wn eq_refl). fold w in Wn.
    destruct k as [[| | |]| |]; try reflexivity; exact Wn.
Qed.

(* ---- the theorem: any number of parties, every schedule ---------------------------------------------------------------------------- *)
Theorem any_number_of_parties kinds sched : (forall k, In k kinds -> In k all_kinds) ->
  let s := grun kinds (init_state (length kinds)) sched in
  finished kinds s = true -> final_ok kinds s = true /\ winners_report kinds s = true.
Proof.
  intros Hk s Hf.
  assert (Hck : forall k, In k kinds -> lcheck_all k = true).
  { intros k Hin. pose proof all_kinds_checked as H. rewrite forallb_forall in H. apply H. apply Hk. exact Hin. }
  apply inv_final; [exact Hck| |exact Hf]. apply inv_run; [exact Hck|apply inv_init].
Qed.

(* ---- every schedule can be extended to one in which all parties have finished ---------------------------------------------------- *)
Fixpoint depth (p : prog) : nat :=
  match p with
  | Ret _ => 0
  | Call _ k => S (Nat.max (depth (k Ok)) (Nat.max (depth (k Fail)) (depth (k Exdev))))
  end.

Lemma replay_snoc : forall h p r, replay p (h ++ [r]) = match replay p h with Call _ k => k r | Ret s => Ret s end.
Proof.
  induction h as [|x t IH]; intros p r; cbn [app replay].
  - destruct p as [s|o k]; [reflexivity|]. cbn [replay]. destruct (k r); reflexivity.
  - destruct p as [s|o k]; [reflexivity|]. cbn [replay]. apply IH.
Qed.

Definition left_p (kinds : list pkind) (s : gstate) (p : nat) : nat :=
  match nth_error kinds p, nth_error (g_hist s) p with
  | Some k, Some h => depth (replay (kprog k) h)
  | _, _ => 0
  end.

Lemma gstep_hist kinds s p s' : gstep kinds s p = Some s' ->
  left_p kinds s' p < left_p kinds s p /\ forall q, q <> p -> nth_error (g_hist s') q = nth_error (g_hist s) q.
Proof.
  unfold gstep, left_p. destruct (nth_error kinds p) as [k|] eqn:Ek; [|discriminate].
  destruct (nth_error (g_hist s) p) as [h|] eqn:Eh; [|discriminate].
  destruct (replay (kprog k) h) as [st|o c] eqn:Er; [discriminate|]. intros H. inversion H; subst s'; clear H. cbn [g_hist]. split.
  - rewrite nth_error_set_nth_same by (apply nth_error_Some; rewrite Eh; discriminate).
    rewrite replay_snoc, Er. cbn [depth]. destruct (outcome_in _ _ _ _); lia.
  - intros q Hq. apply nth_error_set_nth_other. intros E. apply Hq. symmetry. exact E.
Qed.

Lemma gstep_none_left kinds s p : left_p kinds s p = 0 -> gstep kinds s p = None.
Proof.
  unfold gstep, left_p. destruct (nth_error kinds p) as [k|]; [|reflexivity]. destruct (nth_error (g_hist s) p) as [h|]; [|reflexivity].
  destruct (replay (kprog k) h) as [st|o c]; [reflexivity|]. cbn [depth]. intros H. lia.
Qed.

Lemma run_repeat kinds p : forall n s, left_p kinds s p <= n -> gstep kinds (grun kinds s (repeat p n)) p = None.
Proof.
  induction n as [|n IH]; intros s Hl; cbn [repeat grun].
  - apply gstep_none_left. lia.
  - destruct (gstep kinds s p) as [s'|] eqn:E.
    + apply IH. pose proof (proj1 (gstep_hist _ _ _ _ E)). lia.
    + clear IH Hl. induction n as [|n IHn]; cbn [repeat grun]; [exact E|]. rewrite E. exact IHn.
Qed.

Lemma finished_stays kinds p : forall sched s, ~ In p sched -> gstep kinds s p = None -> gstep kinds (grun kinds s sched) p = None.
Proof.
  induction sched as [|q t IH]; intros s Hn H; cbn [grun]; [exact H|].
  assert (Hq : q <> p) by (intros E; apply Hn; left; exact E).
  assert (Ht : ~ In p t) by (intros E; apply Hn; right; exact E).
  destruct (gstep kinds s q) as [s'|] eqn:E; [|apply IH; assumption].
  apply IH; [exact Ht|]. pose proof (proj2 (gstep_hist _ _ _ _ E) p ltac:(intros X; apply Hq; symmetry; exact X)) as Hh.
  unfold gstep in *. rewrite Hh. destruct (nth_error kinds p) as [k|]; [|reflexivity].
  destruct (nth_error (g_hist s) p) as [h|]; [|reflexivity]. destruct (replay (kprog k) h); [reflexivity|discriminate H].
Qed.

Lemma grun_app kinds a : forall s b, grun kinds s (a ++ b) = grun kinds (grun kinds s a) b.
Proof. induction a as [|p t IH]; intros s b; cbn [app grun]; [reflexivity|]. destruct (gstep kinds s p); apply IH. Qed.

Lemma depth_kinds : forallb (fun k => Nat.leb (depth (kprog k)) 16) all_kinds = true.
Proof. vm_compute. reflexivity. Qed.

Lemma left_bound kinds s p : (forall k, In k kinds -> In k all_kinds) -> left_p kinds s p <= 16.
Proof.
  intros Hk. unfold left_p. destruct (nth_error kinds p) as [k|] eqn:Ek; [|lia]. destruct (nth_error (g_hist s) p) as [h|]; [|lia].
  pose proof depth_kinds as Hd. rewrite forallb_forall in Hd. specialize (Hd k (Hk k (nth_error_In _ _ Ek))). apply Nat.leb_le in Hd.
  assert (Hm : forall h p0, depth (replay p0 h) <= depth p0).
  { clear. induction h as [|r t IH]; intros p0; destruct p0 as [st|o c]; cbn [replay]; try lia.
    specialize (IH (c r)). cbn [depth]. destruct r; lia. }
  specialize (Hm h (kprog k)). lia.
Qed.

Lemma completion_blocks kinds : (forall k, In k kinds -> In k all_kinds) -> forall ps s,
  NoDup ps -> forall p, In p ps -> gstep kinds (grun kinds s (flat_map (fun q => repeat q 16) ps)) p = None.
Proof.
  intros Hk. induction ps as [|q t IH]; intros s Hnd p Hp; [contradiction|].
  cbn [flat_map]. rewrite grun_app. inversion Hnd as [|? ? Hq Ht]; subst.
  destruct Hp as [->|Hp].
  - apply finished_stays.
    + intros Hin. apply in_flat_map in Hin. destruct Hin as (x & Hx & Hr). apply repeat_spec in Hr. subst x. contradiction.
    + apply run_repeat. apply left_bound. exact Hk.
  - apply IH; assumption.
Qed.

Theorem every_schedule_completes kinds sched : (forall k, In k kinds -> In k all_kinds) ->
  finished kinds (grun kinds (init_state (length kinds)) (sched ++ completion (length kinds))) = true.
Proof.
  intros Hk. rewrite grun_app. unfold finished, completion. apply forallb_forall. intros p Hp.
  rewrite (completion_blocks kinds Hk (seq 0 (length kinds)) _ (seq_NoDup _ _) p Hp). reflexivity.
Qed.
