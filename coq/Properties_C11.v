(* C11 - body and attachment conditions operate on the decoded MIME content.   (PARTIAL)
   Proved: which part's body is used (multipart/alternative: first text/plain, else first text/html,
   else the raw body; otherwise the message itself), how it is decoded (exact CTE value; base64 = RFC
   4648 by C16; undecodable base64 = error), that MIME errors make the body an error, the depth
   limit, and the exists / for-each semantics of attachment conditions and blocks.
   Boundary scanning: for every body in RFC 2046 form (preamble, delimiter line + part text for each part, closing
   delimiter, epilogue) in which no other line is a delimiter line of this boundary, the part loop returns exactly
   the part texts in order and sees the terminator (C11_parts_of_body); and one level of flattening: if each part text
   parses to a message whose own attachments are known, the attachments of the multipart are the parts in pre-order,
   each followed by its own (C11_flatten_step) - the inductive step of the flattening theorem.
   The closed form over whole rendered trees (C11_attachments_of_tree, C11_attachments_of_message): for EVERY
   well-formed MIME tree of any shape and size - fields and bodies as in the header round trip of C08, the
   Content-Type of each multipart yielding its boundary, no line of a preamble or rendered part being a delimiter
   line of the enclosing boundary - the attachments computed from the rendered text are exactly the sub-messages in
   pre-order, each with its own parsed header table and body, if the nesting fits the depth limit, and an error
   otherwise.  The correspondence of harness/c11.py checks the same on generated trees with ground truth, and also
   what lies outside well-formed trees (missing terminator, colliding boundaries, undecodable parts). *)
From Coq Require Import List Bool NArith String Ascii.
Import ListNotations.
From MD Require Import Bytes Generated DecodeDefs DecodeSpec HeaderDefs HeaderSpec MimeDefs MimeProofs MimeProofs2 MimeProofs3.

Theorem C11_body_not_alternative : forall m, is_content_type m s_mp_alt = false -> get_body m = decode_body m.
Proof. exact get_body_not_alternative. Qed.
Print Assumptions C11_body_not_alternative.

Theorem C11_body_choice : forall m atts, is_content_type m s_mp_alt = true -> get_attachments m = AOk atts ->
  get_body m = match find_type s_text_plain atts with
               | Some a => decode_body a
               | None => match find_type s_text_html atts with
                         | Some a => decode_body a
                         | None => BOk (m_body m)
                         end
               end.
Proof. exact get_body_alternative. Qed.
Print Assumptions C11_body_choice.

Theorem C11_body_error_on_bad_mime : forall m,
  is_content_type m s_mp_alt = true -> get_attachments m = AErr -> get_body m = BNull.
Proof. exact get_body_alternative_error. Qed.
Print Assumptions C11_body_error_on_bad_mime.

Theorem C11_decoding : forall a,
  decode_body a =
  match get_header1 (m_headers a) s_cte with
  | Some enc =>
      if beq_bytes enc s_base64 then match spec_b64 (m_body a) with Some d => BOk (cview d) | None => BNull end
      else if beq_bytes enc s_qp then BOk (cview (qp_decode false (m_body a)))
      else BOk (m_body a)
  | None => BOk (m_body a)
  end.
Proof. exact decode_body_spec. Qed.
Print Assumptions C11_decoding.

Theorem C11_depth_error : forall m, parseattachments 0 m = AErr.
Proof. exact depth_exhausted. Qed.
Print Assumptions C11_depth_error.

Theorem C11_attachment_condition_is_exists : forall f atts,
  attachment_cond f atts = RMatch <->
  exists pre a post, atts = pre ++ a :: post /\ f a = RMatch /\ Forall (fun x => f x = RNoMatch) pre.
Proof. exact attachment_cond_spec. Qed.
Print Assumptions C11_attachment_condition_is_exists.

Theorem C11_attachment_block_error : forall f atts acc,
  (exists a, In a atts /\ f a = RError) -> attachment_block f atts acc = RError.
Proof. exact attachment_block_error. Qed.
Print Assumptions C11_attachment_block_error.

Theorem C11_parts_of_body : forall b pre kids epi, nonl b = true -> quiet b pre -> Forall (quiet b) kids ->
  let body := pre ++ parts_text b kids epi in
  parts_loop (S (S (2 * length body))) b body None = Some (kids, true).
Proof. exact parts_of_body. Qed.
Print Assumptions C11_parts_of_body.

Theorem C11_flatten_step : forall d m type b pre kids epi (subs : list (msg * list msg)),
  get_header1 (m_headers m) s_content_type = Some type -> parseboundary type = PB b -> nonl b = true ->
  m_body m = pre ++ parts_text b kids epi -> quiet b pre -> Forall (quiet b) kids ->
  Forall2 (fun k asub => parse_part k = Some (fst asub) /\ parseattachments d (fst asub) = AOk (snd asub)) kids subs ->
  parseattachments (S d) m = AOk (flat_map (fun asub => fst asub :: snd asub) subs).
Proof. exact flatten_step. Qed.
Print Assumptions C11_flatten_step.

(* non-vacuity: boundary "b", preamble "x\n", parts "A: 1\n\none\n" and "--bb\n", epilogue "e" *)
Example C11_example_parts :
  parts_loop 200 [98%N] (ascii [120;10; 45;45;98;10; 65;58;32;49;10;10;111;110;101;10; 45;45;98;10; 45;45;98;98;10; 45;45;98;45;45;10; 101]%nat) None
  = Some ([ascii [65;58;32;49;10;10;111;110;101;10]%nat; ascii [45;45;98;98;10]%nat], true).
Proof. vm_compute. reflexivity. Qed.

(* ---- the closed form: whole rendered MIME trees ---------------------------------------------------------------------------- *)
(* a rendered well-formed tree parses back to its header table and body *)
Theorem C11_part_parses_back : forall t, wf_tree t -> parse_part (text_of t) = Some (msg_of t).
Proof. exact parse_part_text. Qed.
Print Assumptions C11_part_parses_back.

Theorem C11_attachments_of_tree : forall d t, wf_tree t ->
  parseattachments d (msg_of t) = if fits d t then AOk (flatten t) else AErr.
Proof. exact attachments_of_tree. Qed.
Print Assumptions C11_attachments_of_tree.

Theorem C11_attachments_of_message : forall t, wf_tree t ->
  get_attachments (msg_of t) = if fits depth_limit t then AOk (flatten t) else AErr.
Proof. exact attachments_of_message. Qed.
Print Assumptions C11_attachments_of_message.

Theorem C11_quiet_decidable : forall b s, quietb b s = true -> quiet b s.
Proof. exact quietb_sound. Qed.
Print Assumptions C11_quiet_decidable.

(* non-vacuity: multipart/mixed holding a text part and a multipart/alternative of a plain and a base64 html part
   (whose body contains a line that merely begins like the outer delimiter); preamble and epilogue present *)
Definition bs (s : string) : bytes := map (fun a => N.of_nat (nat_of_ascii a)) (list_ascii_of_string s).
Definition lf : string := String (ascii_of_nat 10) EmptyString.
Definition fld (k v : string) : field := mkfield (bs k) [32%N] (bs v).
Definition ex_leaf1 : tree := Leaf [fld "Content-Type" "text/plain"] (bs ("hello" ++ lf)).
Definition ex_leaf2 : tree :=
  Leaf [fld "Content-Type" "text/html"; fld "Content-Transfer-Encoding" "base64"] (bs ("PGI+aGk8L2I+" ++ lf ++ "--Bx" ++ lf)).
Definition ex_inner : tree :=
  Multi [fld "Content-Type" "multipart/alternative; boundary=""C"""] (bs "C") [] [ex_leaf1; ex_leaf2] (bs ("epilogue" ++ lf)).
Definition ex_outer : tree :=
  Multi [fld "Subject" "x"; fld "Content-Type" "multipart/mixed; boundary=""B"""] (bs "B") (bs ("preamble" ++ lf))
        [ex_leaf1; ex_inner] [].

Example C11_ex_tree_wf : wf_tree ex_outer.
Proof.
  cbn [wf_tree ex_outer ex_inner ex_leaf1 ex_leaf2].
  repeat match goal with
         | |- _ /\ _ => split
         | |- True => exact I
         | |- exists _, _ => eexists; split; vm_compute; reflexivity
         | |- quiet _ _ => apply quietb_sound; vm_compute; reflexivity
         | |- not_multipart _ => vm_compute; reflexivity
         | |- _ = true => vm_compute; reflexivity
         end.
Qed.

Example C11_ex_tree :
  fits 2 ex_outer = false /\ fits 3 ex_outer = true /\ fits depth_limit ex_outer = true /\
  flatten ex_outer = [msg_of ex_leaf1; msg_of ex_inner; msg_of ex_leaf1; msg_of ex_leaf2] /\
  get_attachments (msg_of ex_outer) = AOk (flatten ex_outer) /\
  parseattachments 2 (msg_of ex_outer) = AErr.
Proof. vm_compute. repeat split; reflexivity. Qed.
