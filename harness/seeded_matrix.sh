#!/bin/sh
# For every kept seeded change: does it still apply to /repo's HEAD, and does its property's quick check report a violation?
# usage: harness/seeded_matrix.sh [Cxx ...]   -> lines "Cxx-i applies=yes|no caught=yes|no (concrete|obligation-only)"
cd /verif
for d in /verif/seeded/*/; do
  id=$(basename "$d"); prop=${id%-*}
  if [ $# -gt 0 ]; then case " $* " in *" $prop "*) ;; *) continue;; esac; fi
  if ! git -C /repo apply --check "$d/patch.diff" 2>/dev/null; then echo "$id applies=no"; continue; fi
  git -C /repo apply "$d/patch.diff"
  out=$(./check "$prop" --tier quick --skip-proof 2>&1)
  git -C /repo checkout -- .
  n=$(printf '%s\n' "$out" | grep -c '^VIOLATION')
  c=$(printf '%s\n' "$out" | grep '^VIOLATION' | grep -vc 'no-failing-input-found')
  if [ "$n" -gt 0 ]; then echo "$id applies=yes caught=yes violations=$n concrete=$c"; else echo "$id applies=yes caught=NO"; fi
done
git -C /repo status --short | grep -v '^??' && echo "REPO NOT CLEAN"
