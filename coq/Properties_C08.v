(* C08 - rewriting a message preserves everything it is not meant to change.
   Statements only; proofs are in ParseProofs.v / RewriteProofs.v. *)
From MD Require Import Bytes Generated DecodeDefs HeaderDefs HeaderSpec OrderProofs SearchProofs ParseProofs RewriteProofs.
Local Open Scope N_scope.

(* (1) Reading: a well-formed message text (any fields: duplicates, any case, folded values, 8-bit,
   any length; any blanks after the colon; body without leading empty line; no NUL) is sliced into
   exactly its fields and its body.  [hdrs_of 0 fs] numbers the fields in file order. *)
Theorem C08_parse_recovers_fields : forall fs body,
  wf_message fs body = true ->
  parse_message (message_text fs body) = Some (mkmsg (sort_key (hdrs_of 0 fs)) body).
Proof. exact parse_message_text. Qed.
Print Assumptions C08_parse_recovers_fields.

(* an mbox "From " line is dropped, nothing else changes *)
Theorem C08_from_line_dropped : forall line fs body,
  wf_message fs body = true -> nonul line = true -> forallb (fun c => negb (c =? 10)) line = true ->
  parse_message (mbox_separator ++ line ++ 10 :: message_text fs body)
  = Some (mkmsg (sort_key (hdrs_of 0 fs)) body).
Proof. exact parse_message_text_from. Qed.
Print Assumptions C08_from_line_dropped.

(* (2) Writing after any sequence of label / add-header settings: the bytes written are the fields
   [written_fields fs sets], one "name: value\n" each, an empty line, and the ORIGINAL BODY byte
   for byte. *)
Theorem C08_written_bytes : forall fs body sets,
  render (apply_sets (sort_key (hdrs_of 0 fs)) sets) body
  = concat (map render_kv (written_fields fs sets)) ++ [10] ++ body.
Proof. exact rewrite_bytes. Qed.
Print Assumptions C08_written_bytes.

(* (3) every original field whose name was not set is still there: same name, same value including
   its folding, same relative order - and nothing else with such a name appears *)
Theorem C08_rewrite_preserves_others : forall fs sets,
  filter (kv_untouched (map fst sets)) (written_fields fs sets)
  = filter (kv_untouched (map fst sets)) (map kv_of_field fs).
Proof. exact rewrite_preserves_others. Qed.
Print Assumptions C08_rewrite_preserves_others.

(* (4) a name that was set appears exactly once, with exactly the value set last *)
Theorem C08_set_header_exactly_once : forall fs sets k v,
  lastval sets k = Some v ->
  exists k', filter (kv_named k) (written_fields fs sets) = [(k', v)] /\ caseeq k k' = true.
Proof. exact rewrite_sets_exactly_once. Qed.
Print Assumptions C08_set_header_exactly_once.

(* (5) with no header set (copy across file systems) the written fields are the original ones *)
Theorem C08_copy_identity : forall fs, written_fields fs [] = map kv_of_field fs.
Proof.
  intros fs. pose proof (rewrite_preserves_others fs []) as H. cbn [map] in H.
  assert (E : forall l, filter (kv_untouched []) l = l).
  { induction l as [|x l IH]; [reflexivity|]. cbn. f_equal. exact IH. }
  rewrite !E in H. exact H.
Qed.
Print Assumptions C08_copy_identity.

(* (6) the written file is itself well formed and reads back as exactly the written fields and the
   original body (so a second rewrite, or any later reader, sees what (3)-(4) describe) *)
Theorem C08_rewrite_reparse : forall fs body sets,
  wf_message fs body = true ->
  Forall (fun kv => wf_key (fst kv) = true /\ wf_val (snd kv) = true) sets ->
  let T := apply_sets (sort_key (hdrs_of 0 fs)) sets in
  parse_message (render T body)
  = Some (mkmsg (sort_key (hdrs_of 0 (map field_of_hdr (sort_id T)))) body).
Proof. exact rewrite_reparse. Qed.
Print Assumptions C08_rewrite_reparse.

(* ---- non-vacuity: a message with duplicates, mixed case, folding, 8-bit, empty value, missing
   final newline is well formed; and a rewrite of it ------------------------------------------- *)
Definition ex_fields : list field :=
  [ mkfield (ascii [84;111]%nat) [32] (ascii [97;64;98]%nat);                         (* To: a@b *)
    mkfield (ascii [83;117;98;106;101;99;116]%nat) [32;32] [104;105;10;9;116;104;101;114;101]; (* folded *)
    mkfield (ascii [116;111]%nat) [] [200;201];                                          (* to:<8-bit> *)
    mkfield (ascii [88;45;76;97;98;101;108]%nat) [9] [];                                 (* X-Label:<empty> *)
    mkfield (ascii [84;79]%nat) [32] (ascii [99]%nat) ].                                 (* TO: c *)
Definition ex_body : bytes := ascii [98;111;100;121;10;10;108;97;115;116]%nat.         (* no final newline *)

Example C08_ex_wf : wf_message ex_fields ex_body = true.
Proof. vm_compute. reflexivity. Qed.

Example C08_ex_rewrite :
  written_fields ex_fields [(ascii [116;79]%nat, ascii [90]%nat)]
  = [ (ascii [84;111]%nat, ascii [90]%nat);
      (ascii [83;117;98;106;101;99;116]%nat, [104;105;10;9;116;104;101;114;101]);
      (ascii [88;45;76;97;98;101;108]%nat, []) ].
Proof. vm_compute. reflexivity. Qed.

(* ---- the complementary classes are genuinely different (known findings F-10a..d): witnesses ---- *)
Definition rewrite_file (file : bytes) (sets : list (bytes * bytes)) : bytes :=
  match parse_message file with
  | Some m => render (apply_sets (m_headers m) sets) (m_body m)
  | None => []
  end.

(* F-10a: everything after a NUL byte is dropped *)
Lemma C08_refuted_nul :
  rewrite_file (ascii [65;58;32;98;10;10;120;0;121;10]%nat) [] = ascii [65;58;32;98;10;10;120]%nat.
Proof. vm_compute. reflexivity. Qed.
Print Assumptions C08_refuted_nul.

(* F-10b: a last header line without newline loses its value ("C: d" becomes the body "C") *)
Lemma C08_refuted_unterminated_header :
  rewrite_file (ascii [65;58;32;98;10;67;58;32;100]%nat) [] = ascii [65;58;32;98;10;10;67]%nat.
Proof. vm_compute. reflexivity. Qed.
Print Assumptions C08_refuted_unterminated_header.

(* F-10c: empty lines at the start of the body are collapsed *)
Lemma C08_refuted_leading_empty_lines :
  rewrite_file (ascii [65;58;32;98;10;10;10;10;120;10]%nat) [] = ascii [65;58;32;98;10;10;120;10]%nat.
Proof. vm_compute. reflexivity. Qed.
Print Assumptions C08_refuted_leading_empty_lines.

(* F-10d: with CRLF line ends the body gains an LF line in front of the CRLF separator line *)
Lemma C08_refuted_crlf :
  rewrite_file (ascii [65;58;32;98;13;10;13;10;120;13;10]%nat) []
  = ascii [65;58;32;98;13;10;10;13;10;120;13;10]%nat.
Proof. vm_compute. reflexivity. Qed.
Print Assumptions C08_refuted_crlf.
