"""Grammar-driven generator of mdsort configurations (rule trees) whose matcher outcomes are controlled
by the message: atom i is the condition  header "X-A<i>" /1/  and a message carries X-A<i>: 0|1.
Shared by C03 / C05 / C06 / C12 / C13 / C14."""
import os

NATOMS = 3


# ---- conditions ------------------------------------------------------------------------------------
def gen_cond(rng, depth=0, atoms=NATOMS, allow_all=True):
    r = rng.randrange(13 if depth < 2 else 6)
    if r == 12:
        # unparenthesised chain: `and` and `or` have the same precedence and associate to the left,
        # `!` binds tighter
        items = []
        for i in range(rng.choice([3, 3, 4])):
            a = ('atom', rng.randrange(atoms))
            items.append(('neg', a) if rng.randrange(4) == 0 else a)
        ops = [rng.choice(['and', 'or']) for _ in range(len(items) - 1)]
        return ('chain', items, ops)
    if r < 5:
        return ('atom', rng.randrange(atoms))
    if r == 5 and allow_all:
        return ('all',)
    if r == 6:
        return ('neg', gen_cond(rng, depth + 1, atoms, allow_all))
    if r in (7, 8):
        return ('and', gen_cond(rng, depth + 1, atoms, allow_all), gen_cond(rng, depth + 1, atoms, allow_all))
    if r in (9, 10):
        return ('or', gen_cond(rng, depth + 1, atoms, allow_all), gen_cond(rng, depth + 1, atoms, allow_all))
    return ('paren', gen_cond(rng, depth + 1, atoms, allow_all))


def eval_cond(c, env):
    k = c[0]
    if k == 'atom':
        return env[c[1]]
    if k == 'all':
        return True
    if k == 'neg':
        return not eval_cond(c[1], env)
    if k == 'and':
        return eval_cond(c[1], env) and eval_cond(c[2], env)
    if k == 'or':
        return eval_cond(c[1], env) or eval_cond(c[2], env)
    if k == 'paren':
        return eval_cond(c[1], env)
    if k == 'chain':
        v = eval_cond(c[1][0], env)
        for op, x in zip(c[2], c[1][1:]):
            v = (v and eval_cond(x, env)) if op == 'and' else (v or eval_cond(x, env))
        return v
    raise ValueError(k)


def render_cond(c, top=True):
    k = c[0]
    if k == 'atom':
        return 'header "X-A%d" /1/' % c[1]
    if k == 'all':
        return 'all'
    if k == 'neg':
        inner = c[1]
        s = render_cond(inner, False)
        return '! ' + (s if inner[0] in ('atom', 'all', 'paren', 'neg') else '(' + s + ')')
    if k in ('and', 'or'):
        # parenthesise mixed operators explicitly: the grammar gives `and` and `or` the same precedence
        def side(x):
            s = render_cond(x, False)
            return '(' + s + ')' if (x[0] in ('and', 'or') and x[0] != k) or x[0] == 'chain' else s
        l = side(c[1])
        r = render_cond(c[2], False)
        if c[2][0] in ('and', 'or', 'chain'):
            r = '(' + r + ')'
        return '%s %s %s' % (l, k, r)
    if k == 'paren':
        return '(' + render_cond(c[1], False) + ')'
    if k == 'chain':
        out = render_cond(c[1][0], False)
        for op, x in zip(c[2], c[1][1:]):
            out += ' %s %s' % (op, render_cond(x, False))
        return out
    raise ValueError(k)


# ---- actions ---------------------------------------------------------------------------------------
ACTION_FAMILY = ['move:A', 'move:B', 'flag:new', 'flag:cur', 'label:x', 'label:y', 'addhdr', 'flags:T', 'discard', 'exec']


def gen_actions(rng, allow_exec=True, last=None):
    """A list of action tokens; `last` in (None, 'pass', 'break')."""
    fam = [a for a in ACTION_FAMILY if allow_exec or a != 'exec']
    n = rng.choice([1, 1, 1, 2, 2, 3])
    acts = []
    for _ in range(n):
        a = rng.choice(fam)
        if a == 'discard':
            return ['discard']
        acts.append(a)
    if last is None:
        last = rng.choice([None, None, None, 'pass', 'break'])
    if last:
        acts.append(last)
    return acts


def render_action(a, ctx):
    if a.startswith('move:'):
        return 'move "%s"' % ctx['md' + a[5:]]
    if a == 'flag:new':
        return 'flag new'
    if a == 'flag:cur':
        return 'flag !new'
    if a.startswith('label:'):
        return 'label "%s"' % a[6:]
    if a == 'addhdr':
        return 'add-header "X-Added" "yes"'
    if a.startswith('flags:'):
        return 'flags "%s"' % a[6:]
    if a == 'exec':
        return 'exec { "%s" "ran" }' % ctx['helper']
    return a            # discard, pass, break, reject


# ---- rule trees --------------------------------------------------------------------------------------
def gen_block(rng, depth, maxdepth, maxrules=3, atoms=NATOMS, allow_exec=True):
    rules = []
    for _ in range(rng.randrange(1, maxrules + 1)):
        cond = gen_cond(rng, atoms=atoms)
        if depth < maxdepth and rng.randrange(3) == 0:
            rules.append(('block', cond, gen_block(rng, depth + 1, maxdepth, maxrules, atoms, allow_exec)))
        else:
            rules.append(('acts', cond, gen_actions(rng, allow_exec)))
    return rules


def render_block(rules, ctx, indent=1):
    out = []
    pad = '\t' * indent
    for r in rules:
        if r[0] == 'acts':
            out.append('%smatch %s %s' % (pad, render_cond(r[1]), ' '.join(render_action(a, ctx) for a in r[2])))
        else:
            out.append('%smatch %s {' % (pad, render_cond(r[1])))
            out.append(render_block(r[2], ctx, indent + 1))
            out.append('%s}' % pad)
    return '\n'.join(out)


def render_conf(rules, ctx, stdin=False):
    head = 'stdin' if stdin else 'maildir "%s"' % ctx['src']
    return '%s {\n%s\n}\n' % (head, render_block(rules, ctx))


def message_for(env, i, extra_headers=b'', body=None):
    hdr = b''.join(b'X-A%d: %d\n' % (k, 1 if v else 0) for k, v in enumerate(env))
    return (b'To: user%d@example.com\nSubject: message %d\n' % (i, i)) + hdr + extra_headers + b'\n' + (body if body is not None else b'MARKER-%04d\nbody line\n' % i)


def all_envs(n=NATOMS):
    return [tuple(bool((m >> k) & 1) for k in range(n)) for m in range(2 ** n)]


HELPER = '''#!/bin/sh
# recording helper: argv (one per line, length-prefixed), stdin bytes and inherited descriptors
out="$VERIF_HELPER_OUT"
n=$(ls "$out" 2>/dev/null | wc -l)
d="$out/call-$n-$$"
mkdir -p "$d"
for a in "$@"; do printf '%s\\0' "$a"; done > "$d/argv"
cat > "$d/stdin"
ls -l /proc/$$/fd > "$d/fds" 2>/dev/null
exit ${VERIF_HELPER_EXIT:-0}
'''


def install_helper(sb):
    p = os.path.join(sb.root, 'helper.sh')
    with open(p, 'w') as f:
        f.write(HELPER)
    os.chmod(p, 0o755)
    out = os.path.join(sb.root, 'helper-out')
    os.makedirs(out, exist_ok=True)
    return p, out
