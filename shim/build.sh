#!/bin/sh
set -e
cd "$(dirname "$0")"
cc -O1 -g -fPIC -shared -Wall -o libvfio.so vfio.c -ldl
