(* message_parse_headers recovers exactly the fields and the body a well-formed text was made of. *)
From MD Require Import Bytes Generated DecodeDefs HeaderDefs HeaderSpec OrderProofs.
From Coq Require Import ZifyBool ZifyN ZifyNat.
Local Open Scope N_scope.

Fixpoint hdrs_of (n : nat) (fs : list field) : list hdr :=
  match fs with
  | [] => []
  | f :: r => mkhdr (S n) (f_key f) (f_val f) :: hdrs_of (S n) r
  end.

(* ---- small facts ------------------------------------------------------------------------------ *)
Lemma isblank_isspace c : isblank c = true -> isspace c = true.
Proof. unfold isblank, isspace. lia. Qed.

Lemma cview_nonul s : nonul s = true -> cview s = s.
Proof.
  induction s as [|c r IH]; [reflexivity|]. cbn [nonul forallb cview]. intros H.
  apply andb_true_iff in H as [Hc Hr]. apply negb_true_iff in Hc. rewrite Hc. f_equal. apply IH. exact Hr.
Qed.

Lemma nonul_app a b : nonul (a ++ b) = nonul a && nonul b.
Proof. unfold nonul. apply forallb_app. Qed.

Lemma key_char_facts c : key_charb c = true -> c <> 58 /\ isspace c = false /\ c <> 0.
Proof.
  unfold key_charb. intros H. apply andb_true_iff in H as [H H0]. apply andb_true_iff in H as [H1 H2].
  apply negb_true_iff in H0, H1, H2. repeat split; try (apply N.eqb_neq; assumption). exact H2.
Qed.

Lemma find_key_spec k r : wf_key k = true -> find_key (k ++ 58 :: r) = Some (k, r).
Proof.
  induction k as [|c k IH]; intros H.
  - reflexivity.
  - cbn [wf_key forallb] in H. apply andb_true_iff in H as [Hc Hk].
    destruct (key_char_facts c Hc) as (H1 & H2 & _).
    cbn [app find_key]. apply N.eqb_neq in H1. rewrite H1, H2, IH by exact Hk. reflexivity.
Qed.

Lemma find_key_nl r : find_key (10 :: r) = None.
Proof. reflexivity. Qed.

Lemma skip_blanks_spec bl s : forallb isblank bl = true -> head_not_blank s = true ->
  skip_blanks (bl ++ s) = s.
Proof.
  induction bl as [|c bl IH]; intros Hb Hs.
  - cbn [app]. destruct s as [|d s']; [reflexivity|]. cbn [head_not_blank] in Hs. cbn [skip_blanks].
    apply negb_true_iff in Hs. rewrite Hs. reflexivity.
  - cbn [forallb] in Hb. apply andb_true_iff in Hb as [Hc Hbl]. cbn [app skip_blanks]. rewrite Hc. auto.
Qed.

(* the value ends at the first newline that is not followed by a blank *)
Lemma find_val_spec v next : val_ok v = true -> head_not_blank next = true ->
  find_val (v ++ 10 :: next) = Some (v, next).
Proof.
  induction v as [|c v IH]; intros Hv Hn.
  - cbn [app find_val]. cbn [N.eqb Pos.eqb]. destruct next as [|d n']; [reflexivity|].
    cbn [head_not_blank] in Hn. apply negb_true_iff in Hn. rewrite Hn. reflexivity.
  - cbn [app find_val]. cbn [val_ok] in Hv. destruct (c =? 10) eqn:Ec.
    + destruct v as [|d v']; [discriminate|]. apply andb_true_iff in Hv as [Hd Hv].
      apply N.eqb_eq in Ec. subst c.
      cbn [app]. rewrite Hd. cbn [app] in IH. rewrite IH by assumption. reflexivity.
    + rewrite IH by assumption. reflexivity.
Qed.

Lemma head_not_blank_app_val v s : wf_val v = true -> head_not_blank (v ++ 10 :: s) = true.
Proof.
  unfold wf_val. intros H. apply andb_true_iff in H as [_ H].
  destruct v as [|c v']; [reflexivity | exact H].
Qed.

Lemma findheader_field f next : wf_field f = true -> head_not_blank next = true ->
  findheader (field_text f ++ next) = FH (f_key f) (f_val f) next.
Proof.
  unfold wf_field. intros H Hn. apply andb_true_iff in H as [H Hv]. apply andb_true_iff in H as [Hk Hb].
  unfold findheader, field_text. cbn [app]. rewrite <- !app_assoc. cbn [app].
  rewrite find_key_spec by exact Hk.
  rewrite <- app_assoc. rewrite skip_blanks_spec; [| exact Hb |].
  - rewrite <- app_assoc. cbn [app]. rewrite find_val_spec; [reflexivity | | exact Hn].
    unfold wf_val in Hv. apply andb_true_iff in Hv as [Hv _]. apply andb_true_iff in Hv as [_ Hv]. exact Hv.
  - rewrite <- app_assoc. cbn [app]. apply head_not_blank_app_val. exact Hv.
Qed.

(* what follows a field is another field or the empty line: never a blank *)
Lemma head_not_blank_field f s : wf_field f = true -> head_not_blank (field_text f ++ s) = true.
Proof.
  unfold wf_field, field_text. intros H. apply andb_true_iff in H as [H _]. apply andb_true_iff in H as [Hk _].
  destruct (f_key f) as [|c k]; [reflexivity|]. cbn [app head_not_blank].
  cbn [wf_key forallb] in Hk. apply andb_true_iff in Hk as [Hc _].
  destruct (key_char_facts c Hc) as (_ & H2 & _).
  destruct (isblank c) eqn:E; [|reflexivity]. apply isblank_isspace in E. congruence.
Qed.

Lemma head_not_blank_rest fs body :
  forallb wf_field fs = true -> head_not_blank (fields_text fs ++ 10 :: body) = true.
Proof.
  destruct fs as [|f r]; [reflexivity|]. cbn [forallb]. intros H. apply andb_true_iff in H as [Hf _].
  unfold fields_text. cbn [map concat]. rewrite <- app_assoc. apply head_not_blank_field. exact Hf.
Qed.

Lemma parse_loop_fields : forall fs fuel n body,
  forallb wf_field fs = true -> (length fs < fuel)%nat ->
  parse_loop fuel (fields_text fs ++ 10 :: body) n = Some (hdrs_of n fs, 10 :: body).
Proof.
  induction fs as [|f r IH]; intros fuel n body Hw Hf.
  - destruct fuel as [|fu]; [cbn in Hf; lia|]. reflexivity.
  - destruct fuel as [|fu]; [cbn in Hf; lia|]. cbn [forallb] in Hw. apply andb_true_iff in Hw as [Hwf Hwr].
    cbn [parse_loop]. unfold fields_text. cbn [map concat]. rewrite <- app_assoc.
    rewrite findheader_field; [| exact Hwf | apply (head_not_blank_rest r body Hwr)].
    fold (fields_text r). rewrite IH; [reflexivity | exact Hwr | cbn [length] in Hf; lia].
Qed.

Lemma skip_nl_body body : wf_body body = true -> skip_nl (10 :: body) = body.
Proof.
  unfold wf_body. intros H. apply andb_true_iff in H as [_ H]. cbn [skip_nl N.eqb Pos.eqb].
  destruct body as [|c b]; [reflexivity|]. cbn [skip_nl]. apply negb_true_iff in H. rewrite H. reflexivity.
Qed.

(* a text that starts with a field or with the empty line does not start with "From " *)
Lemma no_separator fs body : forallb wf_field fs = true ->
  prefixb mbox_separator (fields_text fs ++ 10 :: body) = false.
Proof.
  intros Hw. destruct fs as [|f r]; [reflexivity|].
  cbn [forallb] in Hw. apply andb_true_iff in Hw as [Hf _].
  unfold wf_field in Hf. apply andb_true_iff in Hf as [Hf _]. apply andb_true_iff in Hf as [Hk _].
  unfold fields_text, field_text. cbn [map concat]. rewrite <- !app_assoc.
  unfold mbox_separator.
  destruct (f_key f) as [|c1 [|c2 [|c3 [|c4 [|c5 k]]]]]; cbn [app prefixb];
    repeat match goal with
           | |- (?a =? ?b) && _ = false => destruct (a =? b) eqn:?; cbn [andb]; [|reflexivity]
           | |- false = false => reflexivity
           end; try discriminate.
  (* five or more name characters: the fifth would have to be a space *)
  exfalso. cbn [wf_key forallb] in Hk.
  repeat match type of Hk with _ && _ = true => apply andb_true_iff in Hk as [? Hk] end.
  match goal with H : key_charb c5 = true |- _ => destruct (key_char_facts c5 H) as (_ & Hs & _) end.
  match goal with H : (32 =? c5) = true |- _ => apply N.eqb_eq in H; subst c5 end.
  vm_compute in Hs. discriminate.
Qed.

Lemma fields_text_length fs : (length fs <= length (fields_text fs))%nat.
Proof.
  induction fs as [|f r IH]; [cbn; lia|]. unfold fields_text in *. cbn [map concat length].
  rewrite app_length.
  assert (1 <= length (field_text f))%nat by (unfold field_text; rewrite !app_length; cbn [length app]; lia).
  lia.
Qed.

Lemma nonul_fields fs : forallb wf_field fs = true -> nonul (fields_text fs) = true.
Proof.
  induction fs as [|f r IH]; [reflexivity|]. cbn [forallb]. intros H. apply andb_true_iff in H as [Hf Hr].
  unfold fields_text. cbn [map concat]. rewrite nonul_app. fold (fields_text r). rewrite IH by exact Hr.
  rewrite andb_true_r. unfold wf_field in Hf. apply andb_true_iff in Hf as [Hf Hv]. apply andb_true_iff in Hf as [Hk Hb].
  unfold field_text. rewrite !nonul_app.
  assert (nonul (f_key f) = true) as ->.
  { unfold nonul, wf_key in *. rewrite forallb_forall in *. intros c Hc. specialize (Hk c Hc).
    destruct (key_char_facts c Hk) as (_ & _ & H0). apply negb_true_iff. apply N.eqb_neq. exact H0. }
  assert (nonul (f_blank f) = true) as ->.
  { unfold nonul. rewrite forallb_forall in *. intros c Hc. specialize (Hb c Hc). unfold isblank in Hb. lia. }
  unfold wf_val in Hv. apply andb_true_iff in Hv as [Hv _]. apply andb_true_iff in Hv as [Hv _]. rewrite Hv.
  reflexivity.
Qed.

(* ---- the layout theorem -------------------------------------------------------------------------- *)
Theorem parse_message_text fs body : wf_message fs body = true ->
  parse_message (message_text fs body) = Some (mkmsg (sort_key (hdrs_of 0 fs)) body).
Proof.
  unfold wf_message. intros H. apply andb_true_iff in H as [Hf Hb].
  unfold parse_message, message_text. cbn [app].
  assert (Hn : nonul (fields_text fs ++ 10 :: body) = true).
  { rewrite nonul_app, nonul_fields by exact Hf. cbn [nonul forallb N.eqb negb andb].
    unfold wf_body in Hb. apply andb_true_iff in Hb as [Hb _]. exact Hb. }
  rewrite cview_nonul by exact Hn.
  unfold skipseparator. rewrite no_separator by exact Hf.
  rewrite parse_loop_fields; [| exact Hf |].
  - rewrite skip_nl_body by exact Hb. reflexivity.
  - rewrite app_length. pose proof (fields_text_length fs). cbn [length]. lia.
Qed.

(* an mbox "From " line in front is dropped *)
Theorem parse_message_text_from line fs body :
  wf_message fs body = true -> nonul line = true -> forallb (fun c => negb (c =? 10)) line = true ->
  parse_message (mbox_separator ++ line ++ 10 :: message_text fs body)
  = Some (mkmsg (sort_key (hdrs_of 0 fs)) body).
Proof.
  intros Hw Hl Hnl.
  pose proof (parse_message_text fs body Hw) as HP. unfold parse_message in *.
  unfold wf_message in Hw. apply andb_true_iff in Hw as [Hf Hb].
  assert (Hn : nonul (message_text fs body) = true).
  { unfold message_text. rewrite nonul_app, nonul_fields by exact Hf. cbn [app nonul forallb N.eqb negb andb].
    unfold wf_body in Hb. apply andb_true_iff in Hb as [Hb _]. exact Hb. }
  rewrite cview_nonul in HP by exact Hn.
  rewrite cview_nonul.
  2:{ rewrite !nonul_app, Hl.
      change (nonul (10 :: message_text fs body)) with (negb (10 =? 0) && nonul (message_text fs body)).
      rewrite Hn. vm_compute. reflexivity. }
  assert (Hsk : skipseparator (mbox_separator ++ line ++ 10 :: message_text fs body) = message_text fs body).
  { unfold skipseparator.
    assert (prefixb mbox_separator (mbox_separator ++ line ++ 10 :: message_text fs body) = true) as ->.
    { unfold mbox_separator. cbn [app prefixb]. rewrite !N.eqb_refl. reflexivity. }
    assert (Hsp : forall l rest, forallb (fun c => negb (c =? 10)) l = true ->
                   split_at 10 (l ++ 10 :: rest) = (l, Some rest)).
    { induction l as [|c l IH]; intros rest Hc; [reflexivity|]. cbn [forallb] in Hc.
      apply andb_true_iff in Hc as [Hc Hl']. apply negb_true_iff in Hc. cbn [app split_at]. rewrite Hc.
      rewrite IH by exact Hl'. reflexivity. }
    rewrite app_assoc. rewrite Hsp; [reflexivity|].
    rewrite forallb_app, Hnl. unfold mbox_separator. vm_compute. reflexivity. }
  rewrite Hsk.
  assert (skipseparator (message_text fs body) = message_text fs body) as Hid.
  { unfold skipseparator, message_text. cbn [app]. rewrite no_separator by exact Hf. reflexivity. }
  rewrite Hid in HP. exact HP.
Qed.
