"""C14 - a configuration is accepted or rejected as a whole, and the parser is total.
 (a) acceptance: configurations generated from the grammar of mdsort.conf(5) (random layout, comments,
     delimiters, escapes, macros, nesting) must be accepted by config_parse, and the tree it builds must be
     the tree the extracted model (ConfDefs.parse_config) builds;
 (b) rejection: every entry of a catalogue of invalidating edits, applied at every applicable position of
     a valid configuration, must be rejected with at least one "file:line: message" diagnostic - by the
     implementation (the property) and by the model (correspondence);
 (c) the gate: the mdsort binary given a rejected configuration and a populated maildir exits non-zero,
     prints a diagnostic, changes nothing and runs no command - even though other rules of the file are valid;
 (d) totality (a test): byte-level mutations through the sanitizer build with a time limit; the model must
     agree on accept / reject and on the tree."""
import os, re
import common, mdrun, msggen
from common import hexs, unhexs

HOME = b'/home/u'
GOOD_PATTERNS = [b'abc', b'a(b)c', b'^x+$', b'[a-z]+', b'(a|b)', b'a\\.b', b'x{2,3}', b'', b'.*', b'\\(', b'[]x]']
BAD_PATTERNS = [b'(', b'a**', b'[a', b'x{2', b'a\\', b'(a|b']
DELIMS = [b'/', b'|', b',', b'%', b'@', b'_', b'A', b'5', b':']
SCALAR_VAL = {b'seconds': 1, b'second': 1, b's': 1, b'minutes': 60, b'mi': 60, b'min': 60, b'hours': 3600, b'h': 3600, b'days': 86400, b'd': 86400,
              b'weeks': 604800, b'w': 604800, b'months': 2592000, b'mo': 2592000, b'years': 31536000, b'y': 31536000, b'year': 31536000}
SCALARS = sorted(SCALAR_VAL)


class Gen:
    """A valid configuration as a token list with enough structure to apply the invalidating edits."""

    def __init__(self, rng):
        self.rng = rng
        self.macros = []          # names defined
        self.used = set()
        self.sites = {}           # edit class -> list of token indices / descriptors
        self.toks = []

    def emit(self, t, site=None):
        self.toks.append(t)
        if site:
            self.sites.setdefault(site, []).append(len(self.toks) - 1)

    def string(self, action=False, allow_macro=True, site='string'):
        rng = self.rng
        parts = []
        for _ in range(rng.randrange(1, 4)):
            k = rng.randrange(10)
            if k < 5:
                parts.append(rng.choice([b'a', b'inbox', b'x y', b'/tmp/md', b'To', b'l-1', b'\xc3\xa9', b'{', b'}', b'#no comment', b'$', b'$x', b'{x}']))
            elif k == 5:
                parts.append(b'\\"')                    # an escaped quote
            elif k == 6:
                parts.append(rng.choice([b'\\', b'\\n', b'\\\\']) + b'z')    # backslashes that are ordinary characters
            elif k == 7 and allow_macro and self.macros:
                m = rng.choice(self.macros); self.used.add(m)
                parts.append(b'${' + m + b'}')
            elif k == 8 and action:
                parts.append(b'${path}')
            else:
                parts.append(rng.choice([b'\\0', b'\\1', b'~', b'b~c']))
        for k in range(len(parts) - 1):
            if parts[k].endswith(b'$') and parts[k + 1].startswith(b'{'):
                parts[k] += b'z'
        s = b''.join(parts)
        if s.endswith(b'\\'):
            s += b'z'
        self.emit(b'"' + s + b'"', site)

    def strings(self, action=False, site='string', min1=False):
        if self.rng.randrange(3) == 0:
            self.emit(b'{')
            for _ in range(self.rng.randrange(1 if min1 else 0, 4)):
                self.string(action, site=site)
            self.emit(b'}')
        else:
            self.string(action, site=site)

    def pattern(self):
        rng = self.rng
        d = rng.choice(DELIMS)
        p = rng.choice(GOOD_PATTERNS)
        if d in p or d in b'\\':
            d = b'/'
        p = p.replace(b'/', b'\\/') if d == b'/' else p
        flags = rng.choice([b'', b'', b'i', b'l', b'u', b'il', b'ui', b'ii'])
        self.emit(d + p + d + flags, 'pattern')

    def cond_unary(self, depth):
        rng = self.rng
        k = rng.randrange(14)
        if k == 0 and depth < 3:
            self.emit(b'!'); self.cond_unary(depth + 1)
        elif k == 1 and depth < 3:
            self.emit(b'attachment'); self.cond_unary(depth + 1)
        elif k == 2 and depth < 3:
            self.emit(b'('); self.cond(depth + 1); self.emit(b')', 'rparen')
        elif k in (3, 4):
            self.emit(b'body', 'kw_body'); self.pattern()
        elif k in (5, 6):
            self.emit(b'header'); self.strings(); self.pattern()
        elif k == 7:
            self.emit(b'date', 'kw_date')
            f = rng.choice([None, b'header', b'access', b'modified', b'created'])
            if f:
                self.emit(f)
            self.emit(rng.choice([b'<', b'>']), 'date_cmp')
            sc = rng.choice(SCALARS)
            unit = SCALAR_VAL[sc]
            n = rng.choice([0, 1, 2, 30, 4294967295 // unit])
            # the value of an integer is what counts, not how many digits spell it
            self.emit(b'0' * rng.choice([0, 0, 0, 1, 9, 12, 24]) + b'%d' % n, 'int'); self.emit(sc, 'scalar')
        elif k == 8:
            self.emit(b'new')
        elif k == 9:
            self.emit(b'old')
        elif k == 10:
            self.emit(b'all')
        elif k == 11:
            self.emit(b'isdirectory'); self.string()
        elif k == 12:
            self.emit(b'command'); self.strings()
        else:
            self.emit(b'all')

    def cond(self, depth=0):
        self.cond_unary(depth)
        for _ in range(self.rng.choice([0, 0, 1, 2])):
            self.emit(self.rng.choice([b'and', b'or']))
            self.cond_unary(depth)

    def action(self, stdin, in_attachment=False):
        rng = self.rng
        if in_attachment:
            self.emit(b'exec', 'kw_exec')
            for f in rng.choice([[], [b'stdin'], [b'stdin', b'body'], [b'body', b'stdin']]):
                self.emit(f)
            self.strings(action=True)
            return
        k = rng.randrange(11)
        if k == 0:
            self.emit(b'break', 'plain_action')
        elif k in (1, 2):
            self.emit(b'move', 'plain_action'); self.string(action=True)
        elif k == 3:
            self.emit(b'flag', 'kw_flag')
            if rng.randrange(2):
                self.emit(b'!')
            self.emit(b'new')
        elif k == 4:
            self.emit(b'flags', 'plain_action'); self.string(allow_macro=False)
        elif k == 5:
            self.emit(b'label', 'plain_action'); self.strings(action=True)
        elif k == 6:
            self.emit(b'pass', 'plain_action')
        elif k == 7:
            self.emit(b'exec', 'kw_exec')
            for f in rng.choice([[], [], [b'stdin'], [b'stdin', b'body'], [b'body', b'stdin']]):
                self.emit(f)
            self.strings(action=True)
        elif k == 8:
            self.emit(b'add-header', 'plain_action'); self.string(allow_macro=False); self.string(allow_macro=False)
        elif k == 9:
            self.emit(b'attachment', 'kw_attblock'); self.emit(b'{')
            for _ in range(rng.randrange(1, 3)):
                self.emit(b'match'); self.cond(1)
                for _ in range(rng.randrange(1, 3)):
                    self.action(stdin, in_attachment=True)
            self.emit(b'}')
        else:
            self.emit(b'move', 'plain_action'); self.string(action=True)

    def rule(self, stdin, depth):
        rng = self.rng
        self.emit(b'match', 'kw_match'); self.cond()
        r = rng.randrange(12)
        if r == 0 and depth < 3:
            self.emit(b'{', 'nested_open')
            for _ in range(rng.randrange(1, 3)):
                self.rule(stdin, depth + 1)
            self.emit(b'}', 'block_close')
        elif r == 1:
            self.emit(b'discard', 'exclusive' if stdin else 'exclusive_maildir')
        elif r == 2 and stdin:
            self.emit(b'reject', 'exclusive')
        else:
            first = len(self.toks)
            for _ in range(rng.choice([1, 1, 2, 3])):
                self.sites.setdefault('action_start', []).append(len(self.toks))
                self.action(stdin)
            self.sites.setdefault('action_end', []).append(len(self.toks))
            self.sites.setdefault('action_span', []).append((first, len(self.toks)))

    def config(self):
        rng = self.rng
        for i in range(rng.choice([0, 0, 1, 2, 3])):
            name = rng.choice([b'inbox', b'dir', b'x', b'a-b', b'pathx', b'match-', b'spam']) + (b'%s' % (b'abcdefgh'[i:i + 1]))
            if self.macros and rng.randrange(3) == 0:
                # a name that is a proper prefix of an earlier macro's name is a different macro
                longer = rng.choice(self.macros)
                cand = longer[:rng.randrange(2, len(longer))] if len(longer) > 2 else name
                if cand not in (b'match', b'pa', b'pat', b'path', b'al', b'an', b'or', b'ne', b'ol', b'bo', b'da', b'fl', b'st', b'ma', b'mo', b'la', b're', b'ex', b'di', b'br', b'he', b'is', b'co', b'ac', b'cr', b'ad', b'at') \
                        and not any(sc.startswith(cand) for sc in (b'seconds', b'minutes', b'hours', b'days', b'weeks', b'months', b'years')) and not cand.endswith(b'-'):
                    name = cand
            if name in self.macros:
                continue
            self.emit(name, 'macro_name'); self.emit(b'=')
            self.string(allow_macro=True, site='macro_value')
            self.macros.append(name)
        blocks = rng.choice([1, 1, 2, 3])
        stdin_at = rng.randrange(blocks) if rng.randrange(3) == 0 else -1
        for b in range(blocks):
            stdin = (b == stdin_at)
            if stdin:
                self.emit(b'stdin', 'kw_stdin')
            else:
                self.emit(b'maildir', 'kw_maildir'); self.strings(site='maildir_path', min1=True)
            self.emit(b'{', 'block_open')
            for _ in range(rng.randrange(1, 4)):
                self.rule(stdin, 0)
            self.emit(b'}', 'block_close')
        # every macro must be used: add a rule that uses the unused ones
        unused = [m for m in self.macros if m not in self.used]
        if unused:
            self.emit(b'maildir'); self.emit(b'"' + b''.join(b'${' + m + b'}' for m in unused) + b'"'); self.emit(b'{')
            self.emit(b'match'); self.emit(b'all'); self.emit(b'break'); self.emit(b'}')
        return self


def layout(rng, toks, glue=None):
    """tokens -> bytes with random white space / comments between tokens"""
    out = bytearray()
    for i, t in enumerate(toks):
        out += t
        nxt = toks[i + 1] if i + 1 < len(toks) else b''
        # a macro name must be followed by '=' after white space only; pattern flags and integers must be delimited
        if nxt == b'=':
            out += rng.choice([b'', b' ', b'\t', b'\n'])
            continue
        sep = rng.choice([b' ', b' ', b'\n', b'\t', b'  ', b'\n\n', b' # comment " { \n', b'\n#x\n'])
        out += sep
    return bytes(out)


def invalid_patterns(cfg):
    """the (source, icase) pairs of a configuration text that regcomp rejects - computed with the platform oracle over
    every candidate the lexer could cut out: we simply ask for all GOOD/BAD patterns used by the generator"""
    qs = []
    for p in GOOD_PATTERNS + BAD_PATTERNS:
        for ic in (False, True):
            qs.append((ic, p, b'x'))
    res = common.regex_eval(qs)
    return sorted(set((q[1], q[0]) for q, r in zip(qs, res) if r == 'E'))


EDITS = {}
REALLY_BAD = [b'(']


def edit(name, site):
    def deco(f):
        EDITS[name] = (site, f)
        return f
    return deco


@edit('unknown-keyword', 'kw_match')
def _(rng, t, i): t[i] = rng.choice([b'matsch', b'foo', b'x-y']); return t
@edit('keyword-without-block', 'kw_maildir')
def _(rng, t, i): t[i] = b'match'; return t
@edit('unterminated-string', 'string')
def _(rng, t, i): t[i] = t[i][:-1] + b'\\"' if not t[i].endswith(b'\\"') else t[i][:-1]; return t[:i + 1]
@edit('empty-string', 'string')
def _(rng, t, i): t[i] = b'""'; return t
@edit('string-too-long', 'string')
def _(rng, t, i): t[i] = b'"' + b'a' * 8192 + b'"'; return t
# the limit counts the characters of the token, however they are spelt: the last ones as escaped delimiters
@edit('string-too-long-by-escaped-quotes', 'string')
def _(rng, t, i): k = rng.choice([1, 2, 40]); t[i] = b'"' + b'a' * (8192 - k) + b'\\"' * k + b'"'; return t
@edit('pattern-too-long-by-escaped-delimiters', 'pattern')
def _(rng, t, i): k = rng.choice([1, 3, 40]); t[i] = b'/' + b'a' * (8192 - k) + b'\\/' * k + b'/'; return t
@edit('unterminated-pattern', 'pattern')
def _(rng, t, i): t[i] = b'/abc'; return t[:i + 1]
@edit('pattern-too-long', 'pattern')
def _(rng, t, i): t[i] = b'/' + b'a' * 8192 + b'/'; return t
@edit('invalid-pattern', 'pattern')
def _(rng, t, i): t[i] = b'/' + rng.choice(REALLY_BAD) + b'/'; return t
@edit('pattern-flags-l-and-u', 'pattern')
def _(rng, t, i): t[i] = b'/abc/' + rng.choice([b'lu', b'ul', b'liu', b'uil']); return t
@edit('integer-too-large', 'int')
def _(rng, t, i):
    t[i] = rng.choice([b'4294967296', b'9999999999', b'18446744073709551616', b'18446744073709551617', b'55340232221128654855', b'184467440737095516162',
                       b'340282366920938463463374607431768211456', b'99999999999999999999999999']); t[i + 1] = b'seconds'; return t
@edit('age-overflow', 'int')
def _(rng, t, i): t[i] = rng.choice([b'4294967295', b'137', b'5000000']); t[i + 1] = b'years'; return t
@edit('ambiguous-scalar', 'scalar')
def _(rng, t, i): t[i] = b'm'; return t
@edit('unknown-scalar', 'scalar')
def _(rng, t, i): t[i] = rng.choice([b'fortnights', b'secondsx', b'dayz', b'new', b'']); return t
@edit('missing-action', 'action_span')
def _(rng, t, i): return t[:i[0]] + t[i[1]:]
@edit('empty-block', 'block_open')
def _(rng, t, i):
    j = matching(t, i)
    return t[:i + 1] + t[j:]
@edit('empty-nested-block', 'nested_open')
def _(rng, t, i):
    j = matching(t, i)
    return t[:i + 1] + t[j:]
@edit('discard-combined', 'action_start')
def _(rng, t, i): t[i:i] = [b'discard']; return t
@edit('discard-combined-last', 'action_end')
def _(rng, t, i): t[i:i] = [b'discard']; return t
@edit('reject-combined', 'action_start')
def _(rng, t, i): t[i:i] = [b'reject']; return t
@edit('reject-outside-stdin', 'exclusive_maildir')
def _(rng, t, i): t[i] = b'reject'; return t
@edit('reject-in-maildir-after-stdin', 'kw_maildir')
def _(rng, t, i):
    # a stdin block somewhere before a maildir block that uses reject (top level or nested)
    if b'stdin' not in t:
        t = [b'stdin', b'{', b'match', b'all', b'break', b'}'] + t
    tail = rng.choice([[b'match', b'all', b'reject'],
                       [b'match', b'new', b'{', b'match', b'all', b'reject', b'}'],
                       [b'match', b'old', b'move', b'"x"', b'match', b'all', b'reject']])
    return t + [b'maildir', b'"after"', b'{'] + tail + [b'}']
@edit('reject-in-maildir-before-stdin', 'kw_maildir')
def _(rng, t, i):
    pre = [b'maildir', b'"before"', b'{', b'match', b'all', b'reject', b'}']
    return pre + t if b'stdin' in t else pre + t + [b'stdin', b'{', b'match', b'all', b'break', b'}']
@edit('maildir-dev-stdin-then-stdin', 'kw_maildir')
def _(rng, t, i):
    if b'stdin' in t:
        return None
    return [b'maildir', b'"/dev/stdin"', b'{', b'match', b'all', b'break', b'}'] + t + [b'stdin', b'{', b'match', b'all', b'break', b'}']
@edit('nul-then-garbage', 'kw_maildir')
def _(rng, t, i): return t + [b'\x00'] + rng.choice([[b'garbage', b'{', b'{'], [], [b'maildir', b'"z"', b'{', b'}'], [b'"str"']])
@edit('nul-between-blocks', 'kw_maildir')
def _(rng, t, i): return [b'\x00'] + t if rng.randrange(2) else t[:i] + [b'\x00'] + t[i:]
@edit('second-stdin', 'kw_maildir')
def _(rng, t, i):
    if b'stdin' not in [x for x in t if x == b'stdin'] or True:
        t = t + [b'stdin', b'{', b'match', b'all', b'break', b'}', b'stdin', b'{', b'match', b'all', b'break', b'}']
    return t
@edit('exec-body-without-stdin', 'kw_exec')
def _(rng, t, i):
    j = i + 1
    while t[j] in (b'stdin', b'body'): del t[j]
    t[i + 1:i + 1] = [b'body']; return t
@edit('exec-option-repeated', 'kw_exec')
def _(rng, t, i):
    j = i + 1
    while t[j] in (b'stdin', b'body'): del t[j]
    t[i + 1:i + 1] = rng.choice([[b'stdin', b'stdin'], [b'stdin', b'body', b'body'], [b'stdin', b'body', b'stdin']]); return t
@edit('attachment-block-with-action', 'kw_attblock')
def _(rng, t, i):
    j = matching(t, i + 1)
    t[j:j] = rng.choice([[b'move', b'"x"'], [b'discard'], [b'label', b'"l"'], [b'break']]); return t
@edit('macro-defined-twice', 'macro_name')
def _(rng, t, i): t[i:i] = [t[i], b'=', b'"v"']; return t
@edit('macro-named-path', 'macro_name')
def _(rng, t, i): t[0:0] = [b'path', b'=', b'"v"']; return t
@edit('macro-unused', 'kw_maildir')
def _(rng, t, i): t[0:0] = [b'unusedmacro', b'=', b'"v"']; return t
@edit('macro-unknown', 'maildir_path')
def _(rng, t, i): t[i] = t[i][:-1] + b'${nosuchmacro}"'; return t
@edit('macro-unknown-prefix-of-defined', 'maildir_path')
def _(rng, t, i):
    # the reference names a proper prefix (possibly empty) of a macro that is defined and used
    ref = rng.choice([b'prefixmacr', b'prefix', b'pr', b'p', b''])
    t[i] = t[i][:-1] + b'${prefixmacro}${' + ref + b'}"'
    return [b'prefixmacro', b'=', b'"v"'] + t
# the same defects with names so long that the diagnostic itself approaches the size of the buffer it is formatted in
@edit('macro-unknown-long-name', 'maildir_path')
def _(rng, t, i): t[i] = b'"${' + b'm' * rng.choice([8150, 8160, 8162, 8165, 8170, 8180, 8186]) + b'}"'; return t
@edit('macro-unused-long-name', 'kw_maildir')
def _(rng, t, i): t[0:0] = [b'u' * rng.choice([8170, 8177, 8178, 8180, 8185, 8190, 8191]), b'=', b'"v"']; return t
@edit('macro-defined-twice-long-name', 'maildir_path')
def _(rng, t, i):
    name = b'd' * rng.choice([8165, 8169, 8170, 8178, 8180, 8186])
    t[i] = b'"${' + name + b'}"'
    return [name, b'=', b'"/v"', name, b'=', b'"/w"'] + t
@edit('macro-unterminated', 'maildir_path')
def _(rng, t, i): t[i] = t[i][:-1] + b'${x"'; return t
@edit('macro-wrong-context', 'maildir_path')
def _(rng, t, i): t[i] = t[i][:-1] + b'${path}"'; return t
# ... directly after an action string that spells the same (where ${path} is legal and stays unexpanded): what a string means depends on
# where it stands, not on what was expanded just before it
@edit('macro-wrong-context-after-same-action-string', 'maildir_path')
def _(rng, t, i):
    S = rng.choice([b'"${path}"', b'"/m/${path}"', b'"~/${path}.d"'])
    t[i] = S
    return [b'maildir', b'"/nonexistent-a"', b'{', b'match', b'all', rng.choice([b'exec', b'move', b'label']), S, b'}'] + t
@edit('macro-wrong-context-in-condition-after-same-action-string', 'kw_maildir')
def _(rng, t, i):
    S = rng.choice([b'"${path}"', b'"x${path}y"'])
    cond = rng.choice([[b'header', S, b'/./'], [b'isdirectory', S], [b'command', b'{', b'"true"', S, b'}']])
    return t + [b'maildir', b'"/nonexistent-b"', b'{', b'match', b'header', b'"X-Nope"', b'/./', b'exec', b'{', b'"true"', S, b'}',
                b'match', b'!'] + cond + [b'move', b'"/nonexistent-c"', b'}']
@edit('macro-without-equals', 'macro_name')
def _(rng, t, i): t[i + 1] = rng.choice([b'', b'#c\n=', b':']); return t
@edit('tilde-path-too-long', 'maildir_path')
def _(rng, t, i): t[i] = b'"~/' + b'd' * 4090 + b'"'; return t
@edit('missing-closing-brace', 'block_close')
def _(rng, t, i): del t[i]; return t
@edit('stray-paren', 'rparen')
def _(rng, t, i): t[i:i] = [b')']; return t
@edit('flag-without-new', 'kw_flag')
def _(rng, t, i):
    j = i + 1
    if t[j] == b'!': j += 1
    t[j] = rng.choice([b'old', b'"new"', b'']); return t
@edit('date-without-comparison', 'date_cmp')
def _(rng, t, i): t[i] = rng.choice([b'', b'=', b'>=']); return t
@edit('garbage-byte', 'kw_match')
def _(rng, t, i): t[i:i] = [rng.choice([b'\x00', b'\xff', b'*', b'A', b'=', b';'])]; return t
@edit('body-without-pattern-delims', 'kw_body')
def _(rng, t, i): t[i + 1] = b'"abc"'; return t
@edit('keyword-too-long', 'kw_match')
def _(rng, t, i): t[i:i] = [b'a' * 8192]; return t


def is_action_kw(x):
    return x in (b'break', b'move', b'flag', b'flags', b'discard', b'label', b'pass', b'reject', b'exec', b'attachment', b'add-header')


def prev_sig(t, i):
    return t[i - 1] if i > 0 else b''


def matching(t, i):
    """index of the '}' matching the '{' at i"""
    d = 0
    for j in range(i, len(t)):
        if t[j] == b'{' and not t[j].startswith(b'"'):
            d += 1
        elif t[j] == b'}':
            d -= 1
            if d == 0:
                return j
    return len(t) - 1


def in_stdin(t, i):
    d = 0
    for j in range(i, -1, -1):
        if t[j] == b'}': d += 1
        if t[j] == b'{':
            if d == 0:
                # find the block header
                k = j - 1
                while k >= 0 and t[k] not in (b'stdin', b'maildir'):
                    k -= 1
                if k >= 0 and t[k] == b'stdin' and all(x not in (b'match',) for x in t[k:j]):
                    return True
            else:
                d -= 1
    # conservatively: look for the top-level header
    k = i
    while k >= 0 and t[k] not in (b'stdin', b'maildir'):
        k -= 1
    return k >= 0 and t[k] == b'stdin'


def run(ck):
    rng = ck.rng
    q = ck.tier == 'quick'
    drv = common.build_driver('conf_drv', 'asan')
    model = common.model_exe()
    inv = invalid_patterns(None)
    REALLY_BAD[:] = sorted(set(p for p, ic in inv if not p.endswith(b'\\') and b'/' not in p)) or [b'(']
    invarg = ','.join('%s:%d' % (hexs(p), 1 if ic else 0) for p, ic in inv) or '-'
    env = dict(os.environ)
    env.update({'ASAN_OPTIONS': 'detect_leaks=0:exitcode=99', 'UBSAN_OPTIONS': 'halt_on_error=1:exitcode=98', 'VERIF_DRV_TMP': common.mktemp('mdv-drvtmp-')})
    stats = dict(valid=0, invalid=0, mutated=0, dis=0, viol=0, binary=0, classes={})
    samples = []
    cases = []        # (kind, class, text)
    nvalid = 150 if q else 1200
    for i in range(nvalid):
        g = Gen(rng).config()
        text = layout(rng, g.toks)
        if len(text) > 60000:
            continue
        cases.append(('valid', None, text))
        # every applicable edit class, at a random applicable position (thorough: every position)
        for name, (site, f) in EDITS.items():
            idxs = g.sites.get(site, [])
            if not idxs:
                continue
            pick = idxs if (not q and len(idxs) <= 6) else [rng.choice(idxs)] + ([idxs[0]] if rng.randrange(2) else [])
            for ix in set(pick):
                t2 = f(rng, list(g.toks), ix)
                if t2 is None:
                    continue
                cases.append(('invalid', name, layout(rng, [x for x in t2])))
        # byte-level mutations
        for _ in range(2 if q else 4):
            t = bytearray(text)
            for _ in range(rng.choice([1, 1, 2, 4])):
                k = rng.randrange(5)
                if k == 0 and t:
                    t[rng.randrange(len(t))] = rng.choice(b'"/{}()!#=<>\\$~\n \x00\xffaz09-')
                elif k == 1:
                    pos = rng.randrange(len(t) + 1); t[pos:pos] = bytes([rng.choice(b'"/{}()!#=<>\\$~\n \x00\xffaz09-')])
                elif k == 2 and t:
                    pos = rng.randrange(len(t)); del t[pos:pos + rng.choice([1, 1, 3, 10])]
                elif k == 3 and t:
                    del t[rng.randrange(len(t)):]
                elif t:
                    a = rng.randrange(len(t)); b = min(len(t), a + rng.choice([3, 10, 40])); t[a:a] = t[a:b]
            cases.append(('mutated', None, bytes(t)))
    lines = ['conf %s %s' % (hexs(t), hexs(HOME)) for k, c, t in cases]
    impl = []
    CH = 400
    if q:
        for s0 in range(0, len(lines), CH):
            out, r = common.run_lines(drv, lines[s0:s0 + CH], timeout=900, env=env)
            if len(out) != len(lines[s0:s0 + CH]):
                out += ['DIED driver'] * (len(lines[s0:s0 + CH]) - len(out))
            impl += out
    else:
        # thorough: the driver forks one child per file; shard the (independent) requests over the cores
        impl = common.par_lines(drv, lines, timeout=3000, env=env)
    # the patterns each configuration would hand to regcomp (model, assuming all valid), judged by the platform
    pats = common.par_lines(model, ['confpats %s %s' % (hexs(t), hexs(HOME)) for k, c, t in cases], timeout=3000, filler='-')
    allp = set()
    for o in pats:
        if o not in ('-', ''):
            allp.update(o.split(','))
    allp = sorted(allp)
    qs = []
    for e in allp:
        h, ic = e.split(':')
        qs.append((ic == '1', unhexs(h), b'x'))
    verdict = dict(zip(allp, common.regex_eval(qs))) if qs else {}
    mlines = []
    for l, o in zip(lines, pats):
        bad = [e for e in (o.split(',') if o not in ('-', '') else []) if verdict.get(e) == 'E']
        mlines.append(l + ' ' + (','.join(bad) or '-'))
    mod = common.par_lines(model, mlines, timeout=3000, filler='DIED model')
    for (kind, cls, text), a, b in zip(cases, impl, mod):
        stats[kind] += 1
        rep = {'kind': kind, 'class': cls, 'config_hex': hexs(text), 'config': text[:1500].decode(errors='replace'), 'impl': a[:1000], 'model': b[:1000]}
        if a.startswith('DIED'):
            ck.violation('config_parse is killed (%s) by a %d-byte configuration' % (a, len(text)), rep)
            continue
        why = None
        if kind == 'valid' and not a.startswith('OK'):
            why = 'a configuration generated from the documented grammar is rejected (%s)' % a
        if kind == 'invalid':
            stats['classes'][cls] = stats['classes'].get(cls, 0) + 1
            if a.startswith('OK'):
                why = 'a configuration with the defect "%s" is accepted without any diagnostic' % cls
            else:
                f = a.split()
                if len(f) < 3 or int(f[1]) == 0 or int(f[2]) == 0:
                    why = 'a configuration with the defect "%s" is rejected without a "file:line: message" diagnostic (%s)' % (cls, a)
        if why:
            stats['viol'] += 1
            if stats['viol'] <= 4:
                ck.violation(why + ': %r' % text[:300], rep)
            continue
        if b == 'FUEL':
            ck.violation('the model parser runs out of fuel on a %d-byte configuration' % len(text), dict(rep, obligation='ConfDefs fuel'), found_input=False)
            continue
        ia = 'OK' if a.startswith('OK') else 'E'
        ib = 'OK' if b.startswith('OK') else 'E'
        if ia != ib or (ia == 'OK' and a != b):
            stats['dis'] += 1
            if stats['dis'] <= 4:
                rep['obligation'] = 'correspondence ConfDefs'
                ck.violation('correspondence broken (ConfDefs, %s%s): implementation %s, model %s on %r' % (kind, '/' + cls if cls else '', a[:120], b[:120], text[:300]), rep, found_input=False)
        if len(samples) < 2 and kind == 'valid':
            samples.append({'config': text[:500].decode(errors='replace'), 'tree': a[:300]})
    # ---- (c) the gate, on the binary ---------------------------------------------------------------------------------------
    helper = common.rec_helper()
    invalid_cases = [c for c in cases if c[0] == 'invalid']
    rng.shuffle(invalid_cases)
    # one configuration of every defect class first (the gate does not depend on the kind of defect - nor on the mode mdsort runs in)
    per_cls = {}
    first = []
    for c in invalid_cases:
        if per_cls.get(c[1], 0) < 4:          # four of every class: the same defect at several places (top level, nested, maildir or stdin block)
            per_cls[c[1]] = per_cls.get(c[1], 0) + 1
            first.append(c)
    picks = (first + [c for c in invalid_cases if c not in first])[:(max(25, len(first)) if q else max(300, len(first)))]
    gate_runs = [(c, mode) for c in picks for mode in ('maildir', 'stdin', 'dry-stdin')]
    for (kind, cls, text), mode in gate_runs:
        sb = mdrun.Sandbox()
        src = sb.maildir('src')
        hout = os.path.join(sb.root, 'helper-out'); os.makedirs(hout)
        for i in range(3):
            sb.add(src, 'new', b'To: a@b\nSubject: s%d\n\nbody\n' % i)
        before = sb.tree()
        # a valid block in front that would act on the maildir if the file were accepted
        full = (b'maildir "%s" {\n\tmatch all exec "%s" label "touched" move "%s"\n}\n' % (src.encode(), helper.encode(), sb.maildir('dst').encode())) + text
        if mode != 'maildir' and not re.search(rb'(^|\s)stdin\s*\{', text):
            # started as an MDA: a valid stdin block that would deliver the message if the file were accepted
            full = (b'stdin {\n\tmatch all exec "%s" move "%s"\n}\n' % (helper.encode(), sb.maildir('dst').encode())) + full
        before = sb.tree()
        conf = sb.write_conf(full)
        before = sb.tree()
        args = {'maildir': [], 'stdin': ['-'], 'dry-stdin': ['-d', '-']}[mode]
        rc, out, err = sb.run(args, conf=conf, env={'VERIF_HELPER_OUT': hout, 'HOME': HOME.decode()}, stdin=(b'To: a@b\n\nfrom stdin\n' if mode != 'maildir' else None))
        stats['binary'] += 1
        after = sb.tree()
        calls = common.helper_calls(hout)
        diag = [l for l in err.split(b'\n') if re.match(rb'^' + re.escape(conf.encode()) + rb':\d+: ', l)]
        rep = {'kind': 'binary', 'class': cls, 'config': full[:2000].decode(errors='replace'), 'exit': rc, 'stderr': err[-500:].decode(errors='replace')}
        why = None
        if rc == 0:
            why = 'exit status 0'
        elif rc < 0 or rc > 100:
            why = 'abnormal termination (%d)' % rc
        elif not diag:
            why = 'no "file:line: message" diagnostic'
        elif calls:
            why = '%d command(s) were run' % len(calls)
        elif {k: v for k, v in after.items() if 'helper-out' not in k} != {k: v for k, v in before.items() if 'helper-out' not in k}:
            why = 'files changed'
        if why:
            ck.violation('rejected configuration (defect "%s")%s but %s' % (cls, {'maildir': '', 'stdin': ', mdsort reading the message from stdin', 'dry-stdin': ', mdsort -d reading from stdin'}[mode], why), dict(rep, mode=mode))
        sb.cleanup()
        if len(ck.violations) > 6:
            break
    # ---- (e) accepted files whose strings are assembled from macros: evaluation must terminate normally -------------------
    run_compose(ck, rng, 12 if q else 200, stats)
    ck.coverage.update({
        'evaluations': len(cases) + stats['binary'],
        'distinct_nontrivial': stats['valid'] + stats['invalid'],
        'rule': 'grammar-generated configurations (0-3 macros used in later strings, 1-3 maildir/stdin blocks, 1-3 rules each, nested blocks to depth 3, conditions: ! / attachment / '
                'parentheses / body / header with 1 string or a string block / date with every field, comparison, 15 scalar spellings and ages up to the 32-bit limit / new / old / all / '
                'isdirectory / command, and/or chains; actions: every action incl. exec with option orders and attachment blocks; strings with escaped quotes, backslashes, braces, #, $, '
                '~, ${macro}, ${path}, back-references; 9 pattern delimiters, flags i l u; random blanks, newlines and comments between tokens); %d classes of invalidating edits at a '
                'random (thorough: every, up to 6) applicable position; 2-4 byte-level mutations per configuration; the gate on the binary for four rejected configurations of every defect class, each in maildir mode, reading the message from stdin, and with -d reading from stdin. '
                'non-trivial = valid and catalogue cases' % len(EDITS),
        'samples': samples,
        'traces_validated_against_impl': len(cases),
        'valid': stats['valid'], 'invalid': stats['invalid'], 'mutated': stats['mutated'], 'binary_gate_runs': stats['binary'],
        'edit_classes': stats['classes'],
        'disagreements_checked': stats['dis'],
    })
    ck.assumptions += ['regcomp of the platform decides which patterns are valid (passed to the model as an oracle)',
                       'the yacc automaton and its error recovery are not modelled; totality of config_parse on arbitrary bytes is tested under sanitizers, not proved']


def run_compose(ck, rng, n, stats):
    """macro values that only together spell a macro / back-reference, used in every string position"""
    stats['compose'] = 0
    for i in range(n):
        sb = mdrun.Sandbox()
        src = sb.maildir('src'); dst = sb.maildir('dst')
        for j in range(2):
            sb.add(src, 'new', b'To: a@b\nSubject: s%d\n\nbody\n' % j)
        name = rng.choice([b'path', b'a', b'nosuch', b'b', b''])
        tail = rng.choice([b'{' + name + b'}', b'{' + name, b'1', b'{'])
        head = rng.choice([b'$', b'\\\\', b'~'])
        S = b'"${a}${b}"'
        cond = rng.choice([b'isdirectory ' + S, b'command ' + S, b'header ' + S + b' /x/', b'all', b'! isdirectory ' + S])
        act = rng.choice([b'move ' + S, b'label ' + S, b'exec ' + S, b'add-header "X-Y" ' + S, b'flags ' + S, b'move "%s"' % dst.encode()])
        if cond == b'all' and S not in act:
            cond = b'isdirectory ' + S
        text = b'a = "%s"\nb = "%s"\nmaildir "%s" {\n\tmatch %s %s\n}\n' % (head, tail, src.encode(), cond, act)
        if S not in cond + act:
            continue
        conf = sb.write_conf(text)
        for args in (['-d'], []):
            rc, out, err = sb.run(args, conf=conf, kind='asan', env={'ASAN_OPTIONS': 'detect_leaks=0:exitcode=99', 'UBSAN_OPTIONS': 'halt_on_error=1:exitcode=98'}, timeout=30)
            stats['compose'] += 1
            if rc not in (0, 1) or b'Sanitizer' in err or b'runtime error' in err:
                ck.violation('a configuration whose strings are assembled from macros makes mdsort %s terminate abnormally (exit %s): %s' % (' '.join(args), rc, err[:200].decode(errors='replace')),
                             {'kind': 'compose', 'config': text.decode(errors='replace'), 'exit': rc, 'stderr': err[-800:].decode(errors='replace')})
                sb.cleanup()
                return
        sb.cleanup()


def replay(ck, rp):
    drv = common.build_driver('conf_drv', 'plain')
    out, r = common.run_lines(drv, ['conf %s %s' % (rp['config_hex'], hexs(HOME))])
    print(out)
    return 0
