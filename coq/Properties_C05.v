(* C05 - dry run (-d) and syntax check (-n) never change anything.
   Structural facts of the model of main(); the weight is on the trace tie (harness/c05.py). *)
From Coq Require Import List Bool ZArith.
Import ListNotations.
From MD Require Import Generated MainDefs MainProofs.

Theorem C05_dryrun : existsb mutating (pipeline true) = false.
Proof. exact dryrun_never_mutates. Qed.
Print Assumptions C05_dryrun.

Theorem C05_syntax : forall stdin conf_ok mds s n,
  main false stdin conf_ok true mds = Exit s n -> n = 0.
Proof. exact syntax_examines_nothing. Qed.
Print Assumptions C05_syntax.

Theorem C05_dryrun_same_decisions : pipeline true = removelast (pipeline false).
Proof. exact dryrun_same_prefix. Qed.
Print Assumptions C05_dryrun_same_decisions.
