"""C11 - body and attachment conditions operate on the decoded MIME content.
Tie: (a) message_get_attachments / message_get_body through the message.h driver vs the extracted
model (MimeDefs) on generated MIME texts incl. malformed structure; (b) well-formed generated trees
with ground truth: the parts in pre-order, each with its own headers and decoded body, the depth
limit, the body choice for multipart/alternative; (c) the binary with body / attachment rules whose
regex outcome is computed by the platform regexec on the ground-truth decoded content."""
import os, re
import common, mdrun, msggen
from common import hexs, unhexs

DEPTH_LIMIT = 4       # an entity (leaf or multipart) nested more than 4 levels below the message is an error


def trunc(resp):
    out = []
    for t in resp.split():
        out.append(t)
        if t in ('AN', 'BN'):
            break
    return ' '.join(out)


def decoded(leaf):
    return leaf[3]


def leaf_expected_body(t):
    """what mdsort must see as the body of a leaf: decoded by its exact CTE value"""
    _, ctype, enc, raw = t
    return raw


def truth(tree):
    """(ok, parts) : ok False if the nesting exceeds the limit (-> error)"""
    parts = msggen.flatten_tree(tree)
    return msggen.tree_depth(tree) <= DEPTH_LIMIT, parts


def ct_is(t, prefix):
    if t[0] == 'leaf':
        return t[1] is not None and (t[1] == prefix or t[1].startswith(prefix + b';'))
    return (b'multipart/' + t[1]) == prefix


def expected_body(tree):
    """get_body of the root by the property text"""
    if tree[0] == 'leaf':
        return tree[3]
    if tree[1] != b'alternative':
        return None             # the raw body: compared through the model only
    parts = msggen.flatten_tree(tree)
    for p in parts:
        if ct_is(p, b'text/plain'):
            return p[3] if p[0] == 'leaf' else None
    for p in parts:
        if ct_is(p, b'text/html'):
            return p[3] if p[0] == 'leaf' else None
    return None


def part_list(tok):
    """model's A answer -> None (error) or [(whole part text, decoded body or None)]"""
    if tok in ('AN', 'AFUEL'):
        return None
    out = []
    for seg in tok.split(',')[1:]:
        w, body = seg.split(';')
        out.append((unhexs(w), None if body == 'N' else unhexs(body)))
    return out


def part_header(part, name):
    """first value of a header of a part, as the header condition sees it (single-line values only here)"""
    hdrs = part.split(b'\n\n', 1)[0]
    for line in hdrs.split(b'\n'):
        if line.lower().startswith(name.lower() + b':'):
            return line.split(b':', 1)[1].strip(b' \t')
    return None


def binary_round(ck, rng, model, helper, stats):
    sb = mdrun.Sandbox()
    src = sb.maildir('src'); dst = sb.maildir('dst')
    hout = os.path.join(sb.root, 'helper-out'); os.makedirs(hout)
    kind = rng.choice(['body', 'attachment body', 'attachment body', 'attachment header', 'block', 'block', 'exec body', 'exec body'])
    rewritten = False
    pat = rng.choice([b'needle', b'^plain text$', b'html', b'caf', b'x=y'])
    hpat = rng.choice([b'text.plain', b'html', b'multipart', b'^text.plain$', b'octet'])
    msgs = []
    # half of the rounds: a header condition (that does not decide anything) on a field whose value carries a malformed encoded word after
    # some text is evaluated first - what the header decoder did must not leak into the decoding of bodies and parts
    odd = rng.choice([None, b'Re: =?UTF-8?Q?unterminated', b'what =? gives', b'=?UTF-8?Q?fine?= =?UTF-8?X?unknown?= tail', b'lead =?UTF-8?B?@@@?= x'])
    for i in range(1 if kind in ('block', 'exec body') else 10):
        if rng.randrange(3) == 0:
            text = msggen.gen_mime_message(rng)
            if b'\nX-Id:' in text or len(text) > 20000 or b'\0' in text:
                continue
            text = (b'X-Id: %d\n' % i) + text
        else:
            t = msggen.gen_tree(rng, 0, rng.choice([0, 1, 2, 2, 3, 5, 6]), bad=rng.choice([3, 6, 12]))
            text = (b'To: a@b\nX-Id: %d\n' % i) + msggen.render_tree(t, rng)
        if len(text) > 20000:
            continue
        if odd is not None:
            text = b'X-Odd: ' + odd + b'\n' + text
        sb.add(src, 'cur', text)
        msgs.append((i, text))
    if kind == 'body':
        rule = b'match body /%s/ move "%s"' % (pat, dst.encode())
    elif kind == 'attachment body':
        rule = b'match attachment body /%s/ move "%s"' % (pat, dst.encode())
    elif kind == 'attachment header':
        rule = b'match attachment header "Content-Type" /%s/ move "%s"' % (hpat, dst.encode())
    elif kind == 'block':
        rule = b'match all attachment {\n\t\tmatch header "Content-Type" /%s/ exec %s "%s"\n\t}' % (hpat, rng.choice([b'stdin body', b'body stdin']), helper.encode())
    else:
        # (the two options of exec in either order)
        rule = b'match all exec %s "%s"' % (rng.choice([b'stdin body', b'body stdin', b'body\n\t\tstdin']), helper.encode())
        if rng.randrange(2):
            # the body is piped after the message was rewritten by an earlier action of the same rule (another file, another header length)
            rewritten = True
            rule = b'match all add-header "X-C11-Rather-Long-Field-Name" "a value of some length" exec stdin body "%s"' % helper.encode()
    if odd is not None:
        if rule.startswith(b'match all '):
            rule = b'match ! header "X-Odd" /zzz-never/ ' + rule[len(b'match all '):]
        else:
            rule = b'match ( header "X-Odd" /zzz-never/ or ' + rule[len(b'match '):].replace(b' move "', b' ) move "', 1)
    conf = sb.write_conf(b'maildir "%s" {\n\t%s\n}\n' % (src.encode(), rule))
    rc, out, err = sb.run([], conf=conf, env={'VERIF_HELPER_OUT': hout})
    cfg = open(conf, 'rb').read().decode(errors='replace')
    moved = set()
    for b in sb.snapshot(dst).values():
        m = re.search(rb'^X-Id: (\d+)$', b, re.M)
        if m:
            moved.add(int(m.group(1)))
    calls = common.helper_calls(hout)
    reqs = ['msg %s %s %s' % (hexs(text), hexs(b'm'), ('S%s:%s W B' % (hexs(b'X-C11-Rather-Long-Field-Name'), hexs(b'a value of some length')) if rewritten else 'B')
                                 if kind in ('body', 'exec body') else 'A') for i, text in msgs]
    got, _ = common.run_lines(model, reqs)
    if rewritten:
        got = [g.split(' ')[-1] for g in got]
    anyerr = False
    for (i, text), g in zip(msgs, got):
        stats['binary'] += 1
        stats['evals'] += 1
        rep = {'config': cfg, 'message_hex': hexs(text), 'exit': rc, 'stderr': err[-300:].decode(errors='replace')}
        res = 'nomatch'        # match / nomatch / error, by the sequential semantics over the decoded content
        expect_stdin = []
        if kind in ('body', 'exec body'):
            if g in ('BN', 'BFUEL'):
                res = 'error'
            elif kind == 'body':
                r = common.regex_eval([(False, pat, unhexs(g[1:]))])[0]
                res = 'match' if r not in (None, 'E') else 'nomatch'
            else:
                expect_stdin = [unhexs(g[1:])]
        else:
            parts = part_list(g)
            if parts is None:
                res = 'error'
            else:
                for whole, body in parts:
                    if kind == 'attachment body':
                        if body is None:
                            res = 'error'; break
                        if common.regex_eval([(False, pat, body)])[0] not in (None, 'E'):
                            res = 'match'; break
                    else:
                        v = part_header(whole, b'Content-Type')
                        hit = v is not None and common.regex_eval([(False, hpat, v)])[0] not in (None, 'E')
                        if kind == 'attachment header':
                            if hit:
                                res = 'match'; break
                        elif hit:
                            if body is None:
                                res = 'error'; break
                            expect_stdin.append(body)
        anyerr = anyerr or res == 'error'
        did = i in moved
        if kind in ('block', 'exec body'):
            gotin = [c['stdin'] for c in calls]
            if gotin != expect_stdin:
                ck.violation('rule %r: the command(s) received %r on stdin, the decoded content is %r%s' %
                             (rule[:80], [x[:50] for x in gotin], [x[:50] for x in expect_stdin], ' (then an error)' if res == 'error' else ''), rep)
                break
        elif did != (res == 'match'):
            ck.violation('rule %r: message X-Id %d was %s; by its decoded content the condition is: %s' %
                         (rule[:80], i, 'moved' if did else 'not moved', res), rep)
            break
    if anyerr and rc == 0:
        ck.violation('a message with a MIME / decoding error was examined but the exit status is 0 (rule %r)' % rule[:80], {'config': cfg, 'messages_hex': [hexs(t) for i, t in msgs]})
    sb.cleanup()


def run(ck):
    rng = ck.rng
    model = common.model_exe()
    drv = common.build_driver('msg_drv', 'plain')
    stats = dict(evals=0, nontrivial=0, dis=0, viol=0, binary=0)
    samples = []
    # ---- (a) arbitrary / malformed MIME: correspondence ---------------------------------------------------
    n = 1500 if ck.tier == 'quick' else 40000
    cases = []
    for i in range(n):
        text = msggen.gen_mime_message(rng)
        if len(text) > 12000:
            continue
        cases.append((text, rng.choice([['A'], ['B'], ['B', 'A']])))
    lines = ['msg %s %s %s' % (hexs(t), hexs(b'm'), ' '.join(o)) for t, o in cases]
    impl, r = common.run_lines(drv, lines, timeout=1800)
    mod, _ = common.run_lines(model, lines, timeout=1800)
    if len(impl) != len(lines):
        ck.violation('message.h driver died on a MIME text (exit %s): %s' % (r.returncode, r.stderr.decode(errors='replace')[-300:]),
                     {'request': lines[len(impl)][:6000] if len(impl) < len(lines) else None})
    for (text, ops), a, b in zip(cases, impl, mod):
        stats['evals'] += 1
        if trunc(a) != trunc(b):
            stats['dis'] += 1
            if stats['dis'] <= 4:
                ck.violation('correspondence broken (MimeDefs): %r...: implementation %s, model %s' % (text[:120], trunc(a)[:200], trunc(b)[:200]),
                             {'message_hex': hexs(text), 'ops': ops, 'impl': a[:3000], 'model': b[:3000], 'obligation': 'correspondence MimeDefs'}, found_input=False)
    # ---- (b) well-formed trees with ground truth ------------------------------------------------------------
    n = 400 if ck.tier == 'quick' else 10000
    trees = []
    for i in range(n):
        t = msggen.gen_tree(rng, 0, rng.choice([0, 1, 1, 2, 2, 3, 4, 5, 6, 7]), bad=(i % 4 == 0))
        text = b'To: a@b\n' + msggen.render_tree(t, rng)
        if len(text) > 20000:
            continue
        trees.append((t, text))
    lines = ['msg %s %s B A' % (hexs(text), hexs(b'm')) for t, text in trees]
    impl, r = common.run_lines(drv, lines, timeout=1800)
    mod, _ = common.run_lines(model, lines, timeout=1800)
    for (t, text), a, b in zip(trees, impl, mod):
        stats['evals'] += 1
        ok, parts = truth(t)
        toks = a.split()
        btok = toks[0] if toks else ''
        atok = toks[1] if len(toks) > 1 else ''
        why = None
        if t[0] == 'multi' and t[1] == b'alternative' and not ok:
            atok = toks[1] if len(toks) > 1 else 'AN'
        # attachments
        if not ok:
            if not (atok == 'AN' or btok == 'BN'):
                why = 'nesting beyond the supported depth is not reported as an error: %s' % atok[:40]
        elif t[0] == 'multi':
            stats['nontrivial'] += 1
            if atok.startswith('A') and atok != 'AN':
                segs = atok.split(',')
                cnt = int(segs[0][1:])
                if cnt != len(parts):
                    why = '%d parts found, the message has %d' % (cnt, len(parts))
                else:
                    for seg, p in zip(segs[1:], parts):
                        body = seg.split(';')[1]
                        if p[0] == 'leaf':
                            exp = p[3]
                            gotb = None if body == 'N' else unhexs(body)
                            if gotb != exp:
                                why = 'a part\'s decoded body is %r, its content is %r (None = undecodable)' % (gotb and gotb[:60], exp and exp[:60])
                                break
            elif btok != 'BN':
                why = 'a well-formed multipart yields no attachment list: %s' % atok[:40]
        # body choice
        eb = expected_body(t)
        if why is None and ok and eb is not None and btok.startswith('B'):
            if btok == 'BN' or unhexs(btok[1:]) != eb:
                why = 'body condition sees %r, expected %r (decoded; text/plain preferred)' % (unhexs(btok[1:])[:60], eb[:60])
        if why:
            stats['viol'] += 1
            if stats['viol'] <= 4:
                ck.violation('%s; message %r...' % (why, text[:160]), {'message_hex': hexs(text), 'impl': a[:3000], 'model': b[:3000]})
        elif trunc(a) != trunc(b):
            stats['dis'] += 1
            if stats['dis'] <= 4:
                ck.violation('correspondence broken (MimeDefs) on a well-formed tree: implementation %s, model %s' % (trunc(a)[:200], trunc(b)[:200]),
                             {'message_hex': hexs(text), 'impl': a[:3000], 'model': b[:3000], 'obligation': 'correspondence MimeDefs'}, found_input=False)
        if len(samples) < 3 and t[0] == 'multi':
            samples.append({'message': text[:400].decode(errors='replace'), 'parts': len(parts), 'depth': msggen.tree_depth(t)})
    # ---- (c) the binary: body / attachment rules, attachment blocks, exec stdin body ----------------------------
    nb = 40 if ck.tier == 'quick' else 800
    helper = common.rec_helper()
    for round_ in range(nb):
        binary_round(ck, rng, model, helper, stats)
        if len(ck.violations) > 6:
            break
    ck.coverage.update({
        'evaluations': stats['evals'],
        'distinct_nontrivial': stats['nontrivial'],
        'rule': 'MIME texts from msggen.gen_mime (0-60 parts per level, depth 0-6, every encoding per part incl. wrong-case / trailing-blank CTE values, preamble/epilogue, '
                'boundary-like lines, missing / unterminated terminators, unquoted / empty boundary parameters) for correspondence; well-formed trees from '
                'msggen.gen_tree (depth 0-7, 1-20 parts) with ground truth for the monitor; binary rules body / attachment body / attachment header over 12 messages per round. '
                'non-trivial = a well-formed multipart within the depth limit whose parts were compared; counted per tree',
        'samples': samples,
        'traces_validated_against_impl': stats['evals'],
        'disagreements_checked': stats['dis'],
        'binary_message_decisions': stats['binary'],
    })
    ck.assumptions += ['regcomp/regexec of the platform', 'ground truth for well-formed trees comes from the generator (harness/msggen.py:gen_tree)']


def replay(ck, rp):
    drv = common.build_driver('msg_drv', 'plain')
    out, _ = common.run_lines(drv, ['msg %s %s B A' % (rp['message_hex'], hexs(b'm'))])
    print(out[0][:2000] if out else '?')
    return 1
