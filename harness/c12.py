"""C12 - interpolation is exact and single-pass: message content is data, never template.
Tie: rules with 1-4 header pattern conditions (capture groups, l/u flags) and action templates mixing
literals, \\N, \\M.N, escaped dots, ${path} and macros are run by the binary with a recording helper
(argv of exec / command), label / add-header rewrites and move destinations; the captures are
computed by the platform regexec on the model's decoded header values, the expected strings by the
extracted model (InterpDefs.interp / exec_argv / label_value / expandmacros).  Monitor: an independent
python reading of the manual's template syntax (below)."""
import os, re
import common, mdrun, confgen

ALPH = [b'a', b'b', b'A', b'Zq', b'\\', b'[', b']^', b'_`', b'1', b'0', b'2', b'.', b'$', b'{', b'}', b' ', b'path', b'x', b'\\1', b'${path}', b'\\0.1', b'${mac}']


def gen_text(rng, n=None):
    n = n if n is not None else rng.randrange(1, 7)
    return b''.join(rng.choice(ALPH) for _ in range(n)).strip(b' ') or b'a'


# ---- independent reading of the template syntax (monitor) --------------------------------------------------
def ref_interp(tmpl, pats, macros):
    """pats: list of capture lists (the pattern matches of the rule, in order).  Returns bytes or None."""
    out = bytearray()
    i = 0
    n = len(tmpl)
    while i < n:
        c = tmpl[i:i + 1]
        if c == b'\\' and i + 1 < n and tmpl[i + 1:i + 2].isdigit():
            j = i + 1
            while j < n and tmpl[j:j + 1].isdigit():
                j += 1
            v = int(tmpl[i + 1:j])
            if v > 2147483647:
                return None
            mi, si = 0, v
            if tmpl[j:j + 1] == b'.':
                # \M.N : strtoul semantics for N (optional blanks and sign, no digit = 0 and nothing consumed)
                k = j + 1
                k2 = k
                while k2 < n and tmpl[k2:k2 + 1] in (b' ', b'\t', b'\n', b'\v', b'\f', b'\r'):
                    k2 += 1
                neg = False
                if tmpl[k2:k2 + 1] in (b'+', b'-'):
                    neg = tmpl[k2:k2 + 1] == b'-'
                    k2 += 1
                k3 = k2
                while k3 < n and tmpl[k3:k3 + 1].isdigit():
                    k3 += 1
                if k3 == k2:
                    mi, si, j = v, 0, k
                else:
                    w = int(tmpl[k2:k3])
                    if (neg and w != 0) or w > 2147483647:
                        return None
                    mi, si, j = v, (0 if neg else w), k3
            elif tmpl[j:j + 2] == b'\\.':
                j += 1
            if mi >= len(pats) or si >= len(pats[mi]):
                return None
            out += pats[mi][si]
            i = j
        elif tmpl[i:i + 2] == b'${':
            e = tmpl.find(b'}', i + 2)
            if e < 0:
                return None
            name = tmpl[i + 2:e]
            if name not in macros:
                return None
            out += macros[name]
            i = e + 1
        else:
            out += c
            i += 1
    return bytes(out)


def run_case(ck, rng, stats, samples):
    sb = mdrun.Sandbox()
    src = sb.maildir('src')
    helper, hout = confgen.install_helper(sb)
    nc = rng.choice([1, 1, 2, 3, 4])
    hdrs, conds, pats_src = [], [], []
    for k in range(nc):
        name = b'X-H%d' % k
        val = gen_text(rng)
        kind = rng.randrange(6)
        if kind == 5:
            # more than nine groups: \\10, \\11, ... are references like any other
            pat, flags = b'^' + b'(.)?' * 12, rng.choice([b'', b'u'])
        elif kind == 0:
            pat, flags = b'(.*)', rng.choice([b'', b'l', b'u'])        # whole values, the characters between Z and a included
        elif kind == 1:
            pat, flags = b'^(.)(.*)$', b''
        elif kind == 2:
            pat, flags = b'([a-z]+)', rng.choice([b'', b'u', b'i', b'u'])
        elif kind == 3:
            pat, flags = b'(a|b)?(.*)', rng.choice([b'', b'l', b'l', b'u'])
        else:
            pat, flags = b'.', b''
        hdrs.append((name, val))
        conds.append((name, pat, flags))
    # templates
    ntempl = rng.choice([1, 2, 3])
    templates = []
    for _ in range(ntempl):
        parts = []
        for _ in range(rng.randrange(1, 5)):
            r = rng.randrange(9)
            if r < 3:
                parts.append(rng.choice([b'lit', b'a b', b'.', b'$', b'{x}', b'1', b'\\\\'.replace(b'\\\\', b'\\') + b'z']))
            elif r < 5:
                parts.append(b'\\%d' % rng.choice([0, 1, 2, 3, 0, 1, 2, 3, 9, 10, 11, 12, 13]))
            elif r == 5:
                parts.append(b'\\%d.%d' % (rng.randrange(0, nc + 1), rng.choice([0, 1, 2, 0, 1, 2, 10, 12])))
            elif r == 6 and rng.randrange(2):
                # the group number after the dot is read the way strtoul reads it: blanks and a sign may precede the digits
                parts.append(rng.choice([b'\\%d. %d', b'\\%d.+%d', b'\\%d.\t%d', b'\\%d.-%d', b'\\%d.  +%d']) % (rng.randrange(0, nc + 1), rng.choice([0, 1, 2, 7])))
            elif r == 6:
                parts.append(b'\\%d\\.' % rng.randrange(0, 3))
            elif r == 7 and rng.randrange(3) == 0:
                # indices beyond INT_MAX (also such that they are congruent to a small index modulo 2^32 / 2^64)
                parts.append(rng.choice([b'\\4294967297', b'\\4294967296.4294967298', b'\\0.4294967296', b'\\2147483648',
                                         b'\\18446744073709551617', b'\\99999999999999999999', b'\\2147483647']))
            elif r == 7:
                parts.append(b'${path}')
            else:
                parts.append(b'${mac}')
        t = b''.join(parts)
        if nc >= 2 and rng.randrange(3) == 0:
            # captures of two different patterns side by side in one string, in both orders: the l / u flag of one pattern
            # converts its own capture only
            a_, b_ = rng.sample(range(nc), 2)
            t = b'\\%d.%d|\\%d.%d|\\%d.%d' % (a_, rng.randrange(0, 2), b_, rng.randrange(0, 2), a_, rng.randrange(0, 3)) + rng.choice([b'', t])
        # no accidental macro syntax: "${" only in front of the two known names
        t = re.sub(rb'\$\{(?!path\}|mac\})', b'$ {', t)
        if t.endswith(b'\\'):
            t += b'x'
        templates.append(t)
    m1 = rng.choice([b'macro value', b'mv', b'1.5'])
    use_D = rng.randrange(3) == 0
    action = rng.choice(['exec', 'exec', 'label', 'addhdr', 'command', 'ncommand', 'rewrite_exec'])
    if action == 'addhdr':
        # add-header strings are not expanded at parse time: a default macro there is an error and would be unused
        templates = [templates[0].replace(b'${mac}', b'mac')]
    # conditions that are not patterns (and hold) between and after the pattern conditions: they must not shift \\M.N
    fillers = [b'date modified < 1 hours', b'new', b'all', b'! old', b'date created < 2 days', b'( all or new )']
    parts = []
    for ci, (n, p, f) in enumerate(conds):
        parts.append(b'header "%s" /%s/%s' % (n, p, f))
        if rng.randrange(3) == 0:
            parts.append(rng.choice(fillers))
        elif rng.randrange(4) == 0:
            # conditions that are themselves interpolated in the middle of the rule (they see the patterns matched so far) and hold:
            # what the later conditions and the actions see does not depend on them
            parts.append(rng.choice([b'! isdirectory "/nonexistent-verif/\\0"', b'command { "/bin/true" "\\0" "\\%d.0" }' % ci,
                                     b'! command { "/bin/false" "\\0" }']))
    cond_text = b' and '.join(parts)
    strs = b' '.join(mdrun.conf_quote(t) for t in templates)
    uses_m1 = any(b'${mac}' in t for t in templates)
    pre = (b'mac = "%s"\n' % (b'file value' if use_D else m1)) if uses_m1 else b''
    if action == 'rewrite_exec':
        # an earlier action of the rule replaces the very header (or the labels) the captures were taken from: the captured text is
        # what was matched, whatever happens to the header afterwards
        rw = rng.choice([b'add-header "X-H0" "replaced value"', b'add-header "X-H%d" "r"' % (nc - 1), b'label "seen"', b'add-header "X-H0" "a" add-header "X-H0" "b"'])
        rule = b'match %s %s exec { "%s" %s }' % (cond_text, rw, helper.encode(), strs)
        action = 'exec'
    elif action == 'exec':
        rule = b'match %s exec { "%s" %s }' % (cond_text, helper.encode(), strs)
    elif action == 'command':
        rule = b'match %s and command { "%s" %s } flags "T"' % (cond_text, helper.encode(), strs)
    elif action == 'ncommand':
        # the same below a negation: the arguments are interpolated from the matches of the rule all the same
        rule = b'match %s and ! command { "%s" %s } flags "T"' % (cond_text, helper.encode(), strs)
    elif action == 'label':
        rule = b'match %s label { %s }' % (cond_text, strs)
    else:
        rule = b'match %s add-header "X-Added" %s' % (cond_text, mdrun.conf_quote(templates[0]))
    conf = sb.write_conf(pre + b'maildir "%s" {\n\t%s\n}\n' % (src.encode(), rule))
    existing = rng.choice([None, None, b'old', b'\\1', b'${path}', b'a b'])
    text = b'To: x@y\n' + b''.join(b'%s: %s\n' % (n, v) for n, v in hdrs) + (b'X-Label: %s\n' % existing if existing is not None else b'') + b'\nbody\n'
    name = sb.add(src, 'new', text)
    path = os.path.join(src, 'new', name).encode()
    args = ['-D', 'mac=' + m1.decode()] if (use_D and uses_m1) else []
    rc, out, err = sb.run(args, conf=conf, env={'VERIF_HELPER_OUT': hout, 'MALLOC_PERTURB_': '90'})      # freed memory is overwritten at once
    stats['runs'] += 1
    # ---- model / reference prediction -----------------------------------------------------------------
    model = common.model_exe()
    hexs = common.hexs
    fires = True
    before = ['S']
    pats = []
    for (n, p, f), (_, v) in zip(conds, hdrs):
        g = common.run_lines(model, ['msg %s %s G%s' % (hexs(text), hexs(b'm'), hexs(n))])[0][0]
        vals = [common.unhexs(x) for x in g.split(',')[1:]] if g.startswith('G') and g != 'GN' else []
        res = common.regex_eval([(b'i' in f, p, val) for val in vals])
        hit = None
        for val, r in zip(vals, res):
            if r not in (None, 'E'):
                hit = (val, r)
                break
        if hit is None:
            fires = False
            break
        val, offs = hit
        caps = [val[so:eo] if so >= 0 else b'' for so, eo in offs]
        fold = 'l' if b'l' in f else 'u' if b'u' in f else 'n'
        mcaps = [common.unhexs(common.run_lines(model, ['fold %s %s' % (fold, hexs(c))])[0][0][1:]) for c in caps]
        rcaps = [c.lower() if fold == 'l' else c.upper() if fold == 'u' else c for c in caps]
        before.append('P' + ','.join(hexs(c) for c in mcaps))
        pats.append(rcaps)
    macros_default = {b'mac': m1}
    rep = {'config': open(conf, 'rb').read().decode(errors='replace'), 'message': text.decode(errors='replace'), 'args': args, 'exit': rc,
           'stderr': err[-300:].decode(errors='replace')}
    if not fires:
        sb.cleanup(); return
    stats['fired'] += 1
    # parse-time expansion of default macros, then action-time interpolation
    exp_templates_model, exp_templates_ref = [], []
    in_action = action in ('exec', 'label')      # strings the manual lists as action strings keep ${path} for later
    for t in templates:
        if action == 'addhdr':
            exp_templates_model.append(t); exp_templates_ref.append(t)      # add-header strings are not expanded at parse time
            continue
        r = common.run_lines(model, ['expand %d %s %s' % (1 if in_action else 0, '%s:%s' % (hexs(b'mac'), hexs(m1)), hexs(t))])[0][0]
        exp_templates_model.append(common.unhexs(r.split()[0][1:]))
        exp_templates_ref.append(t.replace(b'${mac}', m1))
    act_macros_m = '%s:%s' % (hexs(b'path'), hexs(path))
    act_macros_r = {b'path': path}
    if action in ('command', 'ncommand'):
        act_macros_m, act_macros_r = '-', {}
    bef = ';'.join(before)
    if action in ('exec', 'command', 'ncommand'):
        mres = common.run_lines(model, ['argv %s %s %s' % (','.join(hexs(t) for t in exp_templates_model), act_macros_m, bef)])[0][0]
        mexp = [common.unhexs(x) for x in mres[1:].split(',')] if mres.startswith('S') else None
        rexp = [ref_interp(t, pats, act_macros_r) for t in exp_templates_ref]
        rexp = None if any(x is None for x in rexp) else rexp
        calls = sorted(os.listdir(hout))
        got = None
        if calls:
            got = open(os.path.join(hout, calls[0], 'argv'), 'rb').read().split(b'\0')[:-1]
        desc = 'templates %r, headers %r' % (templates, hdrs)
        if action in ('command', 'ncommand') and any(b'${path}' in t for t in templates):
            sb.cleanup(); return          # ${path} in a condition string is a configuration error (macro used in wrong context)
        judge(ck, stats, 'argv', got, mexp, rexp, rc, desc, rep)
    elif action == 'label':
        ex = [existing] if existing is not None else []
        mres = common.run_lines(model, ['label %s %s %s %s' % (','.join(hexs(e) for e in ex) or '-', ','.join(hexs(t) for t in exp_templates_model), act_macros_m, bef)])[0][0]
        mexp = common.unhexs(mres[1:]) if mres.startswith('S') else None
        rl = [ref_interp(t, pats, act_macros_r) for t in exp_templates_ref]
        # the labels are appended one after the other, each preceded by a blank once the value is non-empty (so a label that interpolates
        # to nothing adds nothing at the front, and only the blank elsewhere)
        rexp = None
        if not any(x is None for x in rl):
            rexp = existing or b''
            for x in rl:
                rexp += (b' ' if rexp else b'') + x
        got = None
        for b in sb.snapshot(src).values():
            m = re.search(rb'^X-Label: (.*)$', b, re.M)
            got = m.group(1) if m and (rc == 0) else (None if rc != 0 else b'')
        if rc != 0:
            got = None
        judge(ck, stats, 'label', got, mexp, rexp, rc, 'label templates %r existing %r headers %r' % (templates, existing, hdrs), rep)
    else:
        mres = common.run_lines(model, ['interp %s %s %s' % (hexs(exp_templates_model[0]), act_macros_m, bef)])[0][0]
        mexp = common.unhexs(mres[1:]) if mres.startswith('S') else None
        rexp = ref_interp(exp_templates_ref[0], pats, act_macros_r)
        got = None
        if rc == 0:
            for b in sb.snapshot(src).values():
                m = re.search(rb'^X-Added: (.*)$', b, re.M)
                got = m.group(1) if m else b''
        judge(ck, stats, 'add-header', got, mexp, rexp, rc, 'template %r headers %r' % (templates[0], hdrs), rep)
    if len(samples) < 4:
        samples.append({'rule': rule.decode(errors='replace'), 'headers': [(n.decode(), v.decode(errors='replace')) for n, v in hdrs]})
    sb.cleanup()


def judge(ck, stats, what, got, mexp, rexp, rc, desc, rep):
    """got: what mdsort produced (None = error/no action); mexp: model; rexp: reference"""
    stats['evals'] += 1
    if rexp is not None:
        stats['nontrivial'] += 1
    norm = lambda x: x
    if got != rexp:
        if got == mexp and what == 'label' and ck.is_known('F-07-label-rescans-existing'):
            ck.known_finding('F-07-label-rescans-existing', desc)
            return
        stats['viol'] += 1
        if stats['viol'] <= 4:
            ck.violation('%s: mdsort produced %r, the manual\'s reading gives %r (model %r); %s' % (what, got, rexp, mexp, desc), rep)
    elif got != mexp:
        stats['dis'] += 1
        if stats['dis'] <= 3:
            ck.violation('correspondence broken (InterpDefs): %s: mdsort %r, model %r; %s' % (what, got, mexp, desc),
                         dict(rep, obligation='correspondence InterpDefs'), found_input=False)
    if (got is None) != (rc != 0) and what != 'argv':
        pass


def sequence_case(ck, rng, stats):
    """several messages in one run: an interpolation that fails part-way for an earlier message (after producing some text) leaves no
    trace in what is interpolated for the later ones"""
    sb = mdrun.Sandbox()
    src = sb.maildir('src'); dst = sb.maildir('dst')
    helper, hout = confgen.install_helper(sb)
    bad = rng.choice([b'pre-\\2', b'lit \\1.1 x', b'a\\0b\\3', b'${path}-\\7'])
    kind = rng.choice(['add-header', 'label', 'exec', 'move'])
    good_t = rng.choice([b'<\\1>', b'\\0|\\1', b'x\\1y'])
    if kind == 'add-header':
        act1, act2 = b'add-header "X-Out" "%s"' % bad, b'add-header "X-Out" "%s"' % good_t
    elif kind == 'label':
        act1, act2 = b'label "%s"' % bad, b'label "%s"' % good_t
    elif kind == 'exec':
        act1, act2 = b'exec { "%s" "%s" }' % (helper.encode(), bad), b'exec { "%s" "%s" }' % (helper.encode(), good_t)
    else:
        act1, act2 = b'move "%s/%s"' % (sb.root.encode(), bad), b'add-header "X-Out" "%s"' % good_t
    conf = sb.write_conf(b'maildir "%s" {\n\tmatch header "X-K" /^first(x)?/ %s\n\tmatch header "X-K" /^(second)/ %s\n}\n' % (src.encode(), act1, act2))
    nfirst = rng.choice([1, 2])
    for i in range(nfirst):
        sb.add(src, 'new', b'To: a\nX-K: first\n\nF%d\n' % i)            # new/ is walked first
    sb.add(src, 'cur', b'To: a\nX-K: second\n\nS\n')
    rc, out, err = sb.run([], conf=conf, env={'VERIF_HELPER_OUT': hout, 'MALLOC_PERTURB_': '90'})
    stats['runs'] += 1; stats['sequence'] = stats.get('sequence', 0) + 1
    want = good_t.replace(b'\\0', b'second').replace(b'\\1', b'second')
    snap = sb.snapshot(src)
    second = [b for b in snap.values() if b'X-K: second' in b]
    firsts = [b for b in snap.values() if b'X-K: first' in b]
    got = None
    if kind == 'exec':
        argvs = [open(os.path.join(hout, c, 'argv'), 'rb').read().split(b'\0')[:-1] for c in sorted(os.listdir(hout))]
        got = argvs[0][0] if len(argvs) == 1 and len(argvs[0]) == 1 else repr(argvs).encode()        # (this helper records its arguments only)
    elif second:
        m = re.search(rb'^(?:X-Out|X-Label): (.*)$', second[0], re.M)
        got = m.group(1) if m else None
    rep = {'config': open(conf, 'rb').read().decode(errors='replace'), 'exit': rc, 'stderr': err[-300:].decode(errors='replace')}
    if got != want or len(firsts) != nfirst or rc == 0:
        stats['viol'] += 1
        ck.violation('after %d message(s) whose template %r fails, the next message\'s %s %r produced %r instead of %r (exit %d, %d first message(s) left)'
                     % (nfirst, bad, kind, good_t, got, want, rc, len(firsts)), rep)
    else:
        stats['nontrivial'] += 1
    sb.cleanup()


def run(ck):
    stats = dict(runs=0, evals=0, fired=0, nontrivial=0, viol=0, dis=0)
    samples = []
    n = 250 if ck.tier == 'quick' else 6000
    for i in range(n):
        run_case(ck, ck.rng, stats, samples)
        if i % 10 == 0:
            sequence_case(ck, ck.rng, stats)
        if len(ck.violations) > 6:
            break
    ck.coverage.update({
        'evaluations': stats['runs'],
        'distinct_nontrivial': stats['nontrivial'],
        'rule': 'rules with 1-4 header pattern conditions, interleaved in a third of the positions with conditions that are not patterns (date modified / created, new, all, ! old) (5 pattern shapes with capture groups, flags i/l/u) over header values from an alphabet containing '
                '\\\\ digits . $ { } and ready-made \\\\1, \\\\0.1, ${path}, ${mac}; 1-3 templates mixing literals, \\\\N, \\\\M.N, \\\\N\\\\., ${path}, ${mac} '
                '(-D override in a third of the cases); action exec / command / ! command / label / add-header; every tenth case a run over two or three messages in which the template of the earlier ones fails part-way; non-trivial = the rule fires and the reference '
                'interpolation succeeds; counted per run',
        'samples': samples,
        'traces_validated_against_impl': stats['evals'],
        'disagreements_checked': stats['dis'],
        'rules_fired': stats['fired'],
    })
    ck.assumptions += ['captures computed by the platform regexec on both sides', 'macro values in the generated configurations contain no template syntax']


def replay(ck, rp):
    print(rp.get('config')); print(rp.get('message'))
    return 1
