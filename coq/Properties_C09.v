(* C09 - maildir names, flags, subdirectories and timestamps follow the convention.
   Statements only; proofs are in FlagsProofs.v, GennameProofs.v.  (The mtime clause and the
   "never replaces a file" clause at the system-call level are C01/C02's I/O model.) *)
From MD Require Import Bytes Generated NamesDefs FlagsProofs GennameProofs.
Local Open Scope N_scope.

(* flags are taken from the text after the LAST ":" of the string parsed, which must be "2," followed
   by letters; they are written back as ":2," + the letters in ASCII order, each once *)
Theorem C09_flags_roundtrip : forall path letters mf,
  after_last_colon path = Some (50 :: 44 :: letters) -> flags_parse path = Some mf ->
  flags_str mf flags_max = Some ([58; 50; 44] ++ filter (fun c => existsb (N.eqb c) letters) alphabet52).
Proof. exact flags_roundtrip. Qed.
Print Assumptions C09_flags_roundtrip.

Theorem C09_no_suffix_is_empty : forall path, after_last_colon path = None -> flags_parse path = Some flags_empty.
Proof. exact flags_parse_no_colon. Qed.
Print Assumptions C09_no_suffix_is_empty.

(* any other suffix, or a non-letter, is an error *)
Theorem C09_invalid_suffix_is_error : forall path mf,
  flags_parse path = Some mf ->
  after_last_colon path = None \/
  exists letters, after_last_colon path = Some (50 :: 44 :: letters) /\ forallb isletter letters = true.
Proof. exact flags_parse_error. Qed.
Print Assumptions C09_invalid_suffix_is_error.

(* new -> cur sets S, cur -> new clears it, same -> same leaves it; every other flag is preserved *)
Theorem C09_S_transition : forall src dst mf, wf_flags mf ->
  msgflags src dst mf =
  Some ([58; 50; 44] ++ filter (fun c => match src, dst with
                                         | SubNew, SubCur => (c =? 83) || flags_isset mf c
                                         | SubCur, SubNew => negb (c =? 83) && flags_isset mf c
                                         | _, _ => flags_isset mf c
                                         end) alphabet52).
Proof. exact msgflags_spec. Qed.
Print Assumptions C09_S_transition.

(* "flags XY" adds exactly X and Y *)
Theorem C09_flags_action_adds : forall s mf mf' d, flags_set_all mf s = Some mf' -> isletter d = true ->
  flags_isset mf' d = existsb (N.eqb d) s || flags_isset mf d.
Proof. exact flags_isset_set_all. Qed.
Print Assumptions C09_flags_action_adds.

(* the destination name is freshly generated: for any set E of existing names (|E| < 2^32) the
   O_EXCL retry loop ends within |E|+1 attempts with a name not in E (counter wrap included) *)
Theorem C09_fresh_name : forall ts pid count host flags bufsiz E fuel,
  N.of_nat (length E) < two32 -> (length E < fuel)%nat ->
  match genname_loop fuel (exists_ E) ts pid count host flags bufsiz O with
  | GenOk name tries => ~ In name E /\ (tries <= S (length E))%nat
  | GenTooLong => True
  | GenFuel => False
  end.
Proof. exact genname_fresh. Qed.
Print Assumptions C09_fresh_name.

Theorem C09_candidates_distinct : forall ts pid c1 c2 host flags,
  genname_fmt ts pid c1 host flags = genname_fmt ts pid c2 host flags -> c1 = c2.
Proof. exact genname_fmt_inj. Qed.
Print Assumptions C09_candidates_distinct.

(* non-vacuity *)
Example C09_ex_roundtrip :
  exists mf, flags_parse (ascii [120;58;50;44;122;83;65;83;97]%nat) = Some mf /\
             flags_str mf flags_max = Some (ascii [58;50;44;65;83;97;122]%nat).
Proof. eexists. split; vm_compute; reflexivity. Qed.

Example C09_ex_collision :
  genname_loop 10 (exists_ [ascii [49;46;50;95;52;46;104]%nat; ascii [49;46;50;95;53;46;104]%nat]) 1 2 3
               (ascii [104]%nat) [] 256 O = GenOk (ascii [49;46;50;95;54;46;104]%nat) 3.
Proof. vm_compute. reflexivity. Qed.

(* F-05 (repaired in /repo by a fix: commit): when the WHOLE path is parsed instead of the file
   name, a ':' in a directory name makes every flag-less message fail *)
Lemma C09_whole_path_refuted :
  flags_parse (ascii [119;101;58;105;114;100;47;110;101;119;47;49;46;49;95;49;46;104]%nat) = None
  /\ flags_parse (ascii [49;46;49;95;49;46;104]%nat) = Some flags_empty.
Proof. split; vm_compute; reflexivity. Qed.
Print Assumptions C09_whole_path_refuted.
