(* Extraction of the executable models for the correspondence checks.
   Directives used: those of ExtrOcamlBasic only (bool, option, unit, list, prod, sumbool,
   sumor -> OCaml types; fst/snd/andb/orb/negb inlined).  nat, positive, N, Z stay inductive. *)
Require Extraction.
Require Import ExtrOcamlBasic.
From MD Require Import Bytes Generated DecodeDefs HeaderDefs MimeDefs NamesDefs IODefs MainDefs EvalDefs InterpDefs ScanDefs InspectDefs ConfDefs DateDefs ConcDefs ExecDefs.
Extraction "mdmodel.ml" Bytes.cview DecodeDefs.base64_decode_raw DecodeDefs.base64_decode
  DecodeDefs.quoted_printable_decode DecodeDefs.rfc2047_decode
  HeaderDefs.parse_message HeaderDefs.get_header HeaderDefs.set_header HeaderDefs.message_write
  HeaderDefs.searchheader
  MimeDefs.get_attachments MimeDefs.get_body MimeDefs.decode_body
  NamesDefs.flags_parse NamesDefs.flags_str NamesDefs.msgflags NamesDefs.flags_set_all NamesDefs.genname_loop
  NamesDefs.pathjoin NamesDefs.pathslice NamesDefs.slice_spec NamesDefs.dec
  IODefs.replay_action IODefs.crash_violation IODefs.file_at IODefs.exactly_once
  MainDefs.main
  EvalDefs.run_rules EvalDefs.spec_run EvalDefs.summary EvalDefs.clean EvalDefs.event_flags EvalDefs.compile EvalDefs.entries_of
  ConfDefs.parse_config ConfDefs.lex
  ConcDefs.reach_table ConcDefs.states_of ConcDefs.finished ConcDefs.status_of ConcDefs.slot ConcDefs.gget
  DateDefs.time_parse DateDefs.print_date DateDefs.print_zone DateDefs.date_cond DateDefs.is_utc_name DateDefs.epoch_of
  InspectDefs.inspect_entry InspectDefs.mbw_c InspectDefs.mbw_utf8 InspectDefs.dry_lines
  ScanDefs.ix_findheader ScanDefs.ix_unfoldheader ScanDefs.ix_parseboundary ScanDefs.ix_skipseparator ScanDefs.ix_findboundary
  ScanDefs.pa_walk HeaderDefs.findheader HeaderDefs.unfoldheader HeaderDefs.skipseparator MimeDefs.parseboundary MimeDefs.findboundary
  InterpDefs.interp InterpDefs.label_value InterpDefs.exec_argv InterpDefs.expandmacros InterpDefs.fold_case
  ExecDefs.child_tz
  NamesDefs.compute NamesDefs.e_message_path NamesDefs.e_delivered_path NamesDefs.e_tmp_template.
