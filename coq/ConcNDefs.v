(* C17 for ANY number of parties: definitions.  Every party is looked at through its own three names (the
   message's name Src, which all parties share, and the two names Dst / New only it creates); from its point of
   view the rest of the world is an environment that may remove Src at any moment.  The reachable states of this
   one-party-plus-environment system are enumerated per kind of party (a finite table, closed under the party's
   own step and the environment's step); the theorems of ConcNProofs lift the facts checked on these tables to
   every state any number of parties can reach under any schedule.  No proofs here. *)
From Coq Require Import List Bool Arith NArith PArith FMapPositive.
Import ListNotations.
From MD Require Import IODefs ConcDefs.

(* ---- the view of party p ---------------------------------------------------------------------------------- *)
Definition proj (s : gstate) (p : nat) : gstate :=
  mkg [gget (g_world s) 0; gget (g_world s) (1 + 2 * p); gget (g_world s) (2 + 2 * p)] [nth p (g_hist s) []].

Definition linit : gstate := mkg [Some (Complete 0); None; None] [[]].
(* somebody else removes (renames away, unlinks) the message *)
Definition lenv (ls : gstate) : gstate := mkg (gset (g_world ls) 0 None) (g_hist ls).
Definition lown (k : pkind) (ls : gstate) : option gstate := gstep [k] ls 0.
Definition lsuccs (k : pkind) (ls : gstate) : list gstate :=
  match lown k ls with Some x => [x] | None => [] end ++ [lenv ls].
Definition lkey (ls : gstate) : positive := if bound (g_world ls) 0 then xI (key ls) else xO (key ls).

(* ---- exhaustive exploration, generic in the successor function and the key ------------------------------------ *)
Section Gen.
  Variable succ : gstate -> list gstate.
  Variable kf : gstate -> positive.

  Definition tmemK (t : table) (s : gstate) : bool :=
    match PositiveMap.find (kf s) t with Some s' => gstate_eqb s s' | None => false end.

  Fixpoint exploreK (fuel : nat) (frontier : list gstate) (t : table) : table :=
    match fuel with
    | O => t
    | S f =>
        let '(fresh, t') :=
          fold_left (fun acc s => let '(fr, tb) := acc in
                                  if tmemK tb s then (fr, tb) else (s :: fr, PositiveMap.add (kf s) s tb))
                    (flat_map succ frontier) ([], t) in
        match fresh with
        | [] => t'
        | _ => exploreK f fresh t'
        end
    end.

  Definition closedK (s0 : gstate) (t : table) : bool :=
    tmemK t s0 && forallb (fun s => forallb (tmemK t) (succ s)) (states_of t).
End Gen.

Definition ltable (k : pkind) : table :=
  exploreK (lsuccs k) lkey 64 [linit] (PositiveMap.add (lkey linit) linit (PositiveMap.empty gstate)).

(* ---- who removed the message ------------------------------------------------------------------------------------ *)
Definition rem (o : op) (r : outcome) : bool :=
  match o, r with
  | Rename Src _, Ok | Unlink Src, Ok => true
  | _, _ => false
  end.

Fixpoint took_along (p : prog) (h : list outcome) {struct h} : bool :=
  match h, p with
  | r :: t, Call o k => rem o r || took_along (k r) t
  | _, _ => false
  end.
Definition took (k : pkind) (h : list outcome) : bool := took_along (kprog k) h.

(* calls that would create or modify the shared name: no protocol makes them *)
Definition src_safe (o : op) : bool :=
  match o with
  | Creat Src | Write Src _ | Flush Src _ | Rename _ Src => false
  | _ => true
  end.

(* ---- what is checked on every state of a party's table --------------------------------------------------------- *)
Definition lhist (ls : gstate) : list outcome := nth 0 (g_hist ls) [].

Definition lcheck (k : pkind) (ls : gstate) : bool :=
  let w := g_world ls in
  let h := lhist ls in
  match replay (kprog k) h with
  | Call o _ => src_safe o
  | Ret st =>
      let d := gget w 1 in
      let n := gget w 2 in
      negb (is_junk d) && negb (is_junk n) &&
      (if took k h
       then negb (is_complete d && is_complete n) && (is_complete d || is_complete n || (is_remover k && Nat.eqb st 0))
       else negb (is_complete d) && negb (is_complete n)) &&
      match st with
      | 0 => match k with
             | KAct ADiscard | KExtDelete | KExtRename => true
             | KAct AWrite => is_complete n
             | KAct _ => is_complete d
             end
      | _ => true
      end
  end.

Definition lcheck_all (k : pkind) : bool :=
  closedK (lsuccs k) lkey linit (ltable k) && forallb (lcheck k) (states_of (ltable k)).
