/* shared helpers for the line-protocol C drivers */
#include <stdio.h>
#include <stdlib.h>
#include <string.h>

static int hexval(int c) {
	if (c >= '0' && c <= '9') return c - '0';
	if (c >= 'a' && c <= 'f') return c - 'a' + 10;
	if (c >= 'A' && c <= 'F') return c - 'A' + 10;
	return -1;
}

/* Decode a hex token into an exact-size heap block of len+1 bytes (NUL terminated), so
 * that an over-read by one byte past the terminator is visible to ASan. */
static char *unhex(const char *tok, size_t *lenp) {
	size_t n, i;
	char *buf;
	if (strcmp(tok, "-") == 0) {
		buf = malloc(1);
		buf[0] = '\0';
		if (lenp) *lenp = 0;
		return buf;
	}
	n = strlen(tok) / 2;
	buf = malloc(n + 1);
	for (i = 0; i < n; i++)
		buf[i] = (char)((hexval(tok[2 * i]) << 4) | hexval(tok[2 * i + 1]));
	buf[n] = '\0';
	if (lenp) *lenp = n;
	return buf;
}

static void puthex(const char *s, size_t n) {
	size_t i;
	if (n == 0) { fputs("-", stdout); return; }
	for (i = 0; i < n; i++)
		printf("%02x", (unsigned char)s[i]);
}

static void puthexstr(const char *s) { puthex(s, strlen(s)); }

/* split line into tokens (in place); returns count */
static int split(char *line, char **tok, int max) {
	int n = 0;
	char *p = strtok(line, " \n");
	while (p != NULL && n < max) { tok[n++] = p; p = strtok(NULL, " \n"); }
	return n;
}
