"""C02 - a crash at any instant never leaves a message without an intact copy.
Tie: (i) for every scenario of the C01 corpus, mdsort is killed (SIGKILL raised by the interposer)
before call k, for every k of the fault-free trace; the surviving tree is judged by the monitor
(every message has an intact copy; leftovers are empty placeholders, complete duplicates or partial
copies next to an intact copy).  (ii) the action phase of every recorded implementation trace
(fault-free and single-fault) is normalised to the model vocabulary and pushed through the
model's power-failure semantics (IODefs.crash_violation: every metadata prefix j <= k, data durable
only after fsync); and the model must issue the same calls (correspondence)."""
import os
import common, iorun
from iorun import parse_trace, segments, versions, classify_tree
import c01


def kill_monitor(ck, scen, base, tree, k, stats):
    vs = base['versions']
    copies, strays = classify_tree(scen, tree, vs)
    discard = 'discard' in scen.rule
    bad = None
    for mk, lst in copies.items():
        intact = [x for x in lst if x[1]]
        if not intact and not discard and not scen.stdin:
            bad = 'message %s has no intact copy after a kill before call %d' % (mk.decode(), k)
    for loc, size in strays:
        if size != 0:
            bad = 'unexplained non-empty file %s (%d bytes) after a kill before call %d' % (loc, size, k)
    if bad:
        stats['viol'] += 1
        if stats['viol'] <= 4:
            ck.violation('scenario %s: %s' % (scen.sid, bad), {'scenario': scen.describe(), 'plan': '%d:kill' % k,
                                                              'tree': [[list(loc), len(b)] for loc, (b, mt) in tree.items()]})
        return True
    return False


def powerfail_check(ck, scen, calls, plan, stats):
    """push the implementation's own trace through the model's crash semantics"""
    segs = segments(calls, scen.stdin)
    model = common.model_exe()
    reqs = []
    for tok, ver, ops in segs:
        if tok == 'discard':
            continue
        reqs.append(('crash %d %s' % (ver, ','.join('%s=%s' % x for x in ops) or '-'), tok, ops))
    if not reqs:
        return
    outs, _ = common.run_lines(model, [r[0] for r in reqs])
    for (req, tok, ops), resp in zip(reqs, outs):
        stats['pf_traces'] += 1
        stats['pf_states'] += (len(ops) + 1) * (len(ops) + 2) // 2
        if resp != 'OK':
            j, k = resp.split()[1:3]
            stats['viol'] += 1
            if stats['viol'] <= 4:
                ck.violation('scenario %s plan %s: the calls mdsort issued for "%s" [%s] admit a power-failure state without an intact copy: '
                             'directory operations persisted up to call %s, data as fsynced by call %s' %
                             (scen.sid, plan, tok, ' '.join('%s=%s' % x for x in ops), j, k),
                             {'scenario': scen.describe(), 'plan': plan, 'ops': ['%s=%s' % x for x in ops], 'metadata_prefix': j, 'crash_after': k})


def run(ck):
    stats = dict(runs=0, kills=0, pf_traces=0, pf_states=0, viol=0, segments=0, dis=0, triples=0, bykind={}, byerr={})
    scens = iorun.corpus(ck.tier)
    if ck.tier == 'quick':
        keep = {}
        for s in scens:
            keep.setdefault(s.sid.rsplit('-', 1)[0] if not s.stdin else s.sid, s)
        scens = list(keep.values())
    samples = []
    for scen in scens:
        rc0, err0, trace0, tree0, tl0 = scen.run()
        calls0 = parse_trace(trace0)
        stats['runs'] += 1
        base = {'tree': tree0, 'versions': versions(scen, tree0), 'rc': rc0}
        if rc0 != 0:
            ck.violation('fault-free run of scenario %s exits %d' % (scen.sid, rc0), {'scenario': scen.describe()})
            continue
        # (scenarios with a command are judged on the surviving trees only: the descriptor work of the command is not part of the
        # rewrite / rename protocols the model describes)
        single = len(scen.msgs) == 1 and 'exec' not in scen.rule and 'command' not in scen.rule
        if single:
            powerfail_check(ck, scen, calls0, None, stats)
            c01.check_model(ck, scen, calls0, rc0, stats, None)
        # (i) kill before every call
        for c in calls0:
            k = c['k']
            rc, err, trace, tree, tl = scen.run(plan='%d:kill' % k)
            stats['runs'] += 1
            stats['kills'] += 1
            kill_monitor(ck, scen, base, tree, k, stats)
            if len(samples) < 3 and c['call'] in ('renameat', 'unlinkat', 'fsync'):
                samples.append({'scenario': scen.sid, 'kill_before_call': k, 'call': c['call'], 'tree': sorted('%s/%s/%s:%d' % (l[0], l[1], l[2][-12:], len(b)) for l, (b, mt) in tree.items())})
        # (ii) power-failure analysis of single-fault traces (the write paths matter most)
        if single:
            for c in calls0:
                if c['call'] not in ('renameat', 'fsync', 'fflush', 'fprintf', 'fclose', 'unlinkat', 'openat', 'dup', 'fdopen', 'write'):
                    continue
                for kind in c01.fault_list(c, ck.tier):
                    plan = '%d:%s' % (c['k'], kind)
                    rc, err, trace, tree, tl = scen.run(plan=plan)
                    stats['runs'] += 1
                    powerfail_check(ck, scen, parse_trace(trace), plan, stats)
                    # the surviving tree of the faulted run itself: status 0 means the intact message is where it belongs (C01's reading of the tree)
                    # (sites whose failure mdsort deliberately ignores are C01's known finding F-15, not repeated here)
                    stats.setdefault('viol', 0)
                    calls_f = parse_trace(trace)
                    at = [i_ for i_, c_ in enumerate(calls_f) if c_['k'] == c['k']]
                    if at and c01.tolerated_call(calls_f[at[0]], calls_f, at[0], scen) is None:
                        c01.monitor(ck, scen, base, rc, err, calls_f, tree, tl, c['k'], kind, stats)
        if len(ck.violations) > 8:
            break
    ck.coverage.update({
        'evaluations': stats['runs'],
        'distinct_nontrivial': stats['kills'] + stats['pf_states'],
        'rule': 'C01 scenario corpus; (i) SIGKILL before every call index of the fault-free run, surviving tree judged; (ii) every recorded trace '
                '(fault-free and one fault on a mutating / durability call) normalised and pushed through the model\'s power-failure semantics for every '
                'pair (metadata prefix j <= crash point k). non-trivial = one kill point or one (j,k) crash state; distinct by construction',
        'samples': samples,
        'states': stats['pf_states'], 'transitions': stats['kills'],
        'traces_validated_against_impl': stats['pf_traces'],
        'kill_points': stats['kills'], 'powerfail_states_checked': stats['pf_states'],
        'disagreements_checked': stats['dis'],
    })
    ck.assumptions += ['storage model of the property text: directory operations persist in order (any prefix), file data only up to the last successful fsync; '
                       'directory fsync is outside it', 'kill = SIGKILL raised by the interposer in place of call k (the kernel keeps everything written so far)']


def replay(ck, rp):
    for scen in iorun.corpus('thorough'):
        if scen.sid == rp['scenario']['id']:
            rc, err, trace, tree, tl = scen.run(plan=rp.get('plan'))
            print('exit', rc, sorted((loc, len(b)) for loc, (b, mt) in tree.items()))
            rc0, err0, trace0, tree0, tl0 = scen.run()
            base = {'tree': tree0, 'versions': versions(scen, tree0), 'rc': rc0}
            stats = dict(viol=0, pf_traces=0, pf_states=0)
            if rp.get('plan', '').endswith('kill'):
                return 1 if kill_monitor(ck, scen, base, tree, int(rp['plan'].split(':')[0]), stats) else 0
            powerfail_check(ck, scen, parse_trace(trace), rp.get('plan'), stats)
            return 1 if ck.violations else 0
    return 1
