(* strcasecmp is a total preorder on byte strings; sorting by it (stable insertion sort, as
   glibc's merge sort) yields a sorted permutation that keeps equal keys in their order. *)
From MD Require Import Bytes Generated DecodeDefs HeaderDefs.
From Coq Require Import ZifyBool ZifyN ZifyNat Permutation Sorted.
Local Open Scope N_scope.

(* ---- strcasecmp ---------------------------------------------------------------------------- *)
Lemma strcasecmp_refl a : strcasecmp a a = Eq.
Proof. induction a as [|x a IH]; simpl; [reflexivity|]. rewrite N.compare_refl. exact IH. Qed.

Lemma strcasecmp_antisym a b : strcasecmp b a = CompOpp (strcasecmp a b).
Proof.
  revert b; induction a as [|x a IH]; intros [|y b]; simpl; try reflexivity.
  rewrite (N.compare_antisym (tolower x) (tolower y)).
  destruct (tolower x ?= tolower y); simpl; auto.
Qed.

Lemma strcasecmp_eq_sym a b : strcasecmp a b = Eq -> strcasecmp b a = Eq.
Proof. intros H. rewrite strcasecmp_antisym, H. reflexivity. Qed.

Lemma strcasecmp_gt_lt a b : strcasecmp a b = Gt <-> strcasecmp b a = Lt.
Proof.
  rewrite (strcasecmp_antisym a b). destruct (strcasecmp a b); simpl; split; intro H; congruence.
Qed.

(* general transitivity: the result of comparing a with c is determined when one side is Eq,
   and Lt/Gt compose *)
Lemma strcasecmp_trans a b c r :
  strcasecmp a b = r -> strcasecmp b c = r -> strcasecmp a c = r.
Proof.
  revert b c; induction a as [|x a IH]; intros [|y b] [|z c]; simpl; intros H1 H2; try congruence.
  destruct (tolower x ?= tolower y) eqn:E1; destruct (tolower y ?= tolower z) eqn:E2;
    try (apply N.compare_eq_iff in E1); try (apply N.compare_eq_iff in E2);
    try rewrite N.compare_lt_iff in *; try rewrite N.compare_gt_iff in *.
  - rewrite E1, E2, N.compare_refl. eauto.
  - rewrite E1. replace (tolower y ?= tolower z) with Lt by (symmetry; apply N.compare_lt_iff; lia). congruence.
  - rewrite E1. replace (tolower y ?= tolower z) with Gt by (symmetry; apply N.compare_gt_iff; lia). congruence.
  - rewrite <- E2. replace (tolower x ?= tolower y) with Lt by (symmetry; apply N.compare_lt_iff; lia). congruence.
  - replace (tolower x ?= tolower z) with Lt by (symmetry; apply N.compare_lt_iff; lia). congruence.
  - congruence.
  - rewrite <- E2. replace (tolower x ?= tolower y) with Gt by (symmetry; apply N.compare_gt_iff; lia). congruence.
  - congruence.
  - replace (tolower x ?= tolower z) with Gt by (symmetry; apply N.compare_gt_iff; lia). congruence.
Qed.

Lemma strcasecmp_eq_l a b c : strcasecmp a b = Eq -> strcasecmp a c = strcasecmp b c.
Proof.
  revert b c; induction a as [|x a IH]; intros [|y b] [|z c]; simpl; intros H; try congruence; try reflexivity.
  destruct (tolower x ?= tolower y) eqn:E; try discriminate.
  apply N.compare_eq_iff in E. rewrite E. destruct (tolower y ?= tolower z); auto.
Qed.

Lemma strcasecmp_eq_r a b c : strcasecmp b c = Eq -> strcasecmp a b = strcasecmp a c.
Proof.
  intros H. rewrite (strcasecmp_antisym b a), (strcasecmp_antisym c a). f_equal.
  apply strcasecmp_eq_l. exact H.
Qed.

(* not-greater is transitive *)
Definition cle (a b : bytes) : Prop := strcasecmp a b <> Gt.

Lemma cle_trans a b c : cle a b -> cle b c -> cle a c.
Proof.
  unfold cle. intros H1 H2.
  destruct (strcasecmp a b) eqn:E1; [| |congruence].
  - rewrite (strcasecmp_eq_l a b c E1). exact H2.
  - destruct (strcasecmp b c) eqn:E2; [| |congruence].
    + rewrite <- (strcasecmp_eq_r a b c E2), E1. discriminate.
    + rewrite (strcasecmp_trans a b c Lt E1 E2). discriminate.
Qed.

Lemma caseeq_refl a : caseeq a a = true.
Proof. unfold caseeq. rewrite strcasecmp_refl. reflexivity. Qed.

Lemma caseeq_sym a b : caseeq a b = caseeq b a.
Proof. unfold caseeq. rewrite (strcasecmp_antisym b a). destruct (strcasecmp b a); reflexivity. Qed.

Lemma caseeq_true a b : caseeq a b = true <-> strcasecmp a b = Eq.
Proof. unfold caseeq. destruct (strcasecmp a b); split; congruence. Qed.

Lemma caseeq_trans_l a b c : caseeq a b = true -> caseeq a c = caseeq b c.
Proof. intros H. apply caseeq_true in H. unfold caseeq. rewrite (strcasecmp_eq_l a b c H). reflexivity. Qed.

(* ---- sorting by key -------------------------------------------------------------------------- *)
Definition kle (a b : hdr) : Prop := cle (h_key a) (h_key b).
Definition SortedK (l : list hdr) : Prop := StronglySorted kle l.

Lemma insert_key_perm h l : Permutation (insert_key h l) (h :: l).
Proof.
  induction l as [|x r IH]; simpl; [reflexivity|].
  destruct (strcasecmp (h_key h) (h_key x)); try reflexivity.
  rewrite IH. apply perm_swap.
Qed.

Lemma sort_key_perm l : Permutation (sort_key l) l.
Proof.
  induction l as [|x r IH]; simpl; [reflexivity|].
  unfold sort_key in *. simpl. rewrite insert_key_perm. constructor. exact IH.
Qed.

Lemma insert_key_sorted h l : SortedK l -> SortedK (insert_key h l).
Proof.
  induction 1 as [|x r Hs IH Hx]; simpl.
  - repeat constructor.
  - destruct (strcasecmp (h_key h) (h_key x)) eqn:E.
    + constructor; [constructor; assumption|]. constructor.
      * unfold kle, cle. rewrite E. discriminate.
      * eapply Forall_impl; [|exact Hx]. intros y Hy. unfold kle in *.
        eapply cle_trans; [|exact Hy]. unfold cle. rewrite E. discriminate.
    + constructor; [constructor; assumption|]. constructor.
      * unfold kle, cle. rewrite E. discriminate.
      * eapply Forall_impl; [|exact Hx]. intros y Hy. unfold kle in *.
        eapply cle_trans; [|exact Hy]. unfold cle. rewrite E. discriminate.
    + constructor; [exact IH|].
      assert (Hp := insert_key_perm h r).
      eapply Permutation_Forall; [symmetry; exact Hp|].
      constructor; [|exact Hx]. unfold kle, cle.
      apply strcasecmp_gt_lt in E. rewrite E. discriminate.
Qed.

Lemma sort_key_sorted l : SortedK (sort_key l).
Proof.
  induction l as [|x r IH]; [constructor|]. unfold sort_key in *. simpl. apply insert_key_sorted. exact IH.
Qed.

(* stability: the entries of one name class keep their relative order *)
Definition keq (name : bytes) (h : hdr) : bool := caseeq name (h_key h).

Lemma insert_key_filter name h l :
  filter (keq name) (insert_key h l) = filter (keq name) (h :: l).
Proof.
  induction l as [|x r IH]; [reflexivity|]. cbn [insert_key].
  destruct (strcasecmp (h_key h) (h_key x)) eqn:E; try reflexivity.
  cbn [filter] in *. rewrite IH.
  destruct (keq name h) eqn:Eh; [|reflexivity].
  (* h is in the class and strictly greater than x: x is not in the class *)
  assert (keq name x = false) as ->; [|reflexivity].
  unfold keq in *. destruct (caseeq name (h_key x)) eqn:Ex; [|reflexivity].
  apply caseeq_true in Eh, Ex.
  assert (strcasecmp (h_key h) (h_key x) = Eq).
  { rewrite <- (strcasecmp_eq_l name (h_key h) (h_key x) Eh). exact Ex. }
  congruence.
Qed.

Lemma sort_key_filter name l : filter (keq name) (sort_key l) = filter (keq name) l.
Proof.
  induction l as [|x r IH]; [reflexivity|].
  unfold sort_key in *. cbn [fold_right]. rewrite insert_key_filter. cbn [filter]. rewrite IH. reflexivity.
Qed.

(* ---- sorting by id --------------------------------------------------------------------------- *)
Definition ile (a b : hdr) : Prop := (h_id a <= h_id b)%nat.
Definition ilt (a b : hdr) : Prop := (h_id a < h_id b)%nat.

Lemma insert_id_perm h l : Permutation (insert_id h l) (h :: l).
Proof.
  induction l as [|x r IH]; simpl; [reflexivity|].
  destruct (Nat.ltb (h_id x) (h_id h)); [|reflexivity]. rewrite IH. apply perm_swap.
Qed.

Lemma sort_id_perm l : Permutation (sort_id l) l.
Proof.
  induction l as [|x r IH]; [reflexivity|]. unfold sort_id in *. simpl. rewrite insert_id_perm.
  constructor. exact IH.
Qed.

Lemma insert_id_sorted h l : StronglySorted ile l -> StronglySorted ile (insert_id h l).
Proof.
  induction 1 as [|x r Hs IH Hx]; simpl; [repeat constructor|].
  destruct (Nat.ltb (h_id x) (h_id h)) eqn:E.
  - constructor; [exact IH|].
    eapply Permutation_Forall; [symmetry; apply insert_id_perm|].
    constructor; [|exact Hx]. unfold ile. apply Nat.ltb_lt in E. lia.
  - apply Nat.ltb_ge in E. constructor; [constructor; assumption|]. constructor; [exact E|].
    eapply Forall_impl; [|exact Hx]. unfold ile. intros; lia.
Qed.

Lemma sort_id_sorted l : StronglySorted ile (sort_id l).
Proof.
  induction l as [|x r IH]; [constructor|]. unfold sort_id in *. simpl. apply insert_id_sorted. exact IH.
Qed.

(* filtering commutes with the stable insertion into an id-sorted list *)
Lemma insert_id_filter (P : hdr -> bool) h l : StronglySorted ile l ->
  filter P (insert_id h l) = if P h then insert_id h (filter P l) else filter P l.
Proof.
  induction 1 as [|x r Hs IH Hx]; cbn [insert_id filter].
  - destruct (P h); reflexivity.
  - destruct (Nat.ltb (h_id x) (h_id h)) eqn:E; cbn [filter].
    + rewrite IH. destruct (P x) eqn:Px, (P h) eqn:Ph; cbn [insert_id]; try rewrite E; reflexivity.
    + destruct (P h) eqn:Ph; [|reflexivity].
      destruct (P x) eqn:Px; cbn [insert_id]; [rewrite E; reflexivity|].
      (* x filtered out: h still goes in front of whatever remains, since all of r is >= x >= h *)
      apply Nat.ltb_ge in E.
      clear IH. induction r as [|y r' IHr]; [reflexivity|]. cbn [filter].
      inversion Hx as [|? ? Hy Hx']; subst. inversion Hs as [|? ? Hs' Hy']; subst.
      destruct (P y).
      * cbn [insert_id]. assert (Nat.ltb (h_id y) (h_id h) = false) as ->; [|reflexivity].
        apply Nat.ltb_ge. unfold ile in Hy. lia.
      * apply IHr; assumption.
Qed.

Lemma sort_id_filter P l : filter P (sort_id l) = sort_id (filter P l).
Proof.
  induction l as [|x r IH]; [reflexivity|]. unfold sort_id in *. cbn [fold_right filter].
  rewrite insert_id_filter by (apply sort_id_sorted). rewrite IH.
  destruct (P x); reflexivity.
Qed.

(* a permutation of a list with strictly increasing ids sorts back to that list *)
Lemma sorted_perm_unique l1 : forall l2,
  StronglySorted ilt l1 -> StronglySorted ile l2 -> Permutation l1 l2 -> l1 = l2.
Proof.
  induction l1 as [|a l1 IH]; intros l2 H1 H2 Hp.
  - apply Permutation_nil in Hp. congruence.
  - destruct l2 as [|b l2]; [symmetry in Hp; apply Permutation_nil in Hp; discriminate|].
    inversion H1 as [|? ? H1' Ha]; subst. inversion H2 as [|? ? H2' Hb]; subst.
    assert (a = b).
    { assert (Ia : In a (b :: l2)) by (eapply Permutation_in; [exact Hp | left; reflexivity]).
      assert (Ib : In b (a :: l1)) by (eapply Permutation_in; [symmetry; exact Hp | left; reflexivity]).
      destruct Ia as [Ia|Ia]; [congruence|]. destruct Ib as [Ib|Ib]; [congruence|].
      rewrite Forall_forall in Ha, Hb. specialize (Ha _ Ib). specialize (Hb _ Ia).
      unfold ilt, ile in *. lia. }
    subst b. f_equal. apply IH; auto. eapply Permutation_cons_inv; eauto.
Qed.

Lemma sort_id_of_perm l l0 : StronglySorted ilt l0 -> Permutation l l0 -> sort_id l = l0.
Proof.
  intros H0 Hp. symmetry. apply sorted_perm_unique; [exact H0 | apply sort_id_sorted |].
  rewrite sort_id_perm. symmetry. exact Hp.
Qed.

Lemma Permutation_filter {A} (P : A -> bool) l1 l2 :
  Permutation l1 l2 -> Permutation (filter P l1) (filter P l2).
Proof.
  induction 1 as [|x l l' _ IH|x y l|l l' l'' _ IH1 _ IH2]; cbn [filter].
  - reflexivity.
  - destruct (P x); [constructor|]; exact IH.
  - destruct (P x), (P y); try reflexivity. apply perm_swap.
  - etransitivity; eauto.
Qed.
