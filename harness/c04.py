"""C04 - the exit status tells the truth (MDA contract, error isolation).
Tie: the binary on populations in which an arbitrary subset of messages is individually defective
(invalid flag suffix, unparsable Date under a date rule, undecodable base64 under a body rule, too
deeply nested MIME, missing destination, failing exec, failing interpolation) and on unusable
maildirs; the per-message outcomes (defective -> error and untouched, healthy -> processed) give the
outcome lists from which the model's main() (MainDefs.main) computes the exit status.  stdin mode:
every kind of outcome and every single I/O fault of the spool phase.  Monitor: neighbours of a
defective message are processed completely; status 0 iff nothing was defective."""
import os, re
import common, mdrun, iorun, c01

KINDS_OK = ['plain', 'date-ok', 'date-okabbr', 'b64-ok', 'mime-ok', 'dest:ok2', 'exec:0', 'flags-ok', 'attblock-ok', 'cmdarg:0']
KINDS_BAD = ['date-bad', 'date-nozone', 'b64-bad', 'mime-deep', 'dest:nowhere', 'exec:3', 'interp', 'flags-bad', 'mime-noterm', 'attblock-bad', 'attblock-badlast', 'cmdinterp', 'dirinterp']


def nested(depth):
    if depth == 0:
        return b'Content-Type: text/plain\n\nleaf\n'
    b = b'b%d' % depth
    return b'Content-Type: multipart/mixed; boundary="' + b + b'"\n\n--' + b + b'\n' + nested(depth - 1) + b'--' + b + b'--\n'


def make_message(kind, i):
    mk = iorun.marker(i)
    hdr = b'To: u%d@example.com\nX-Kind: %s\n' % (i, kind.split('-')[0].encode() if kind.startswith(('date', 'b64', 'mime', 'flags', 'plain', 'interp', 'attblock', 'cmdinterp', 'dirinterp')) else kind.encode())
    name = '1500000000.%d_1.h' % i
    body = mk + b'\n'
    if kind == 'date-ok':
        hdr += b'Date: Mon, 01 Jan 2001 10:00:00 +0000\n'
    elif kind == 'date-okabbr':
        hdr += b'Date: Mon, 01 Jan 2001 10:00:00 %s\n' % [b'GMT', b'EST', b'UT', b'CET'][i % 4]
    elif kind == 'date-nozone':
        hdr += b'Date: Tue, 12 Mar 2019 08:00:00\n'            # no zone at all: not a date mdsort accepts, whatever it parsed before
    elif kind == 'date-bad':
        hdr += b'Date: the day after tomorrow\n'
    elif kind == 'b64-ok':
        import base64
        hdr += b'Content-Transfer-Encoding: base64\n'
        body = base64.encodebytes(b'needle ' + mk + b'\n')
        return name, hdr + b'X-Marker: ' + mk + b'\n\n' + body
    elif kind == 'b64-bad':
        hdr += b'Content-Transfer-Encoding: base64\nX-Marker: ' + mk + b'\n'
        return name, hdr + b'\n@@@@ not base64 @@@@\n'
    elif kind == 'mime-ok':
        return name, hdr + b'X-Marker: ' + mk + b'\n' + nested(2)
    elif kind == 'mime-deep':
        return name, hdr + b'X-Marker: ' + mk + b'\n' + nested(7)
    elif kind == 'mime-noterm':
        return name, hdr + b'X-Marker: ' + mk + b'\nContent-Type: multipart/mixed; boundary="q"\n\n--q\nContent-Type: text/plain\n\nx\n'
    elif kind.startswith('attblock'):
        good = b'Content-Type: text/plain\n\nneedle in part\n'
        broken = b'Content-Type: text/plain\nContent-Transfer-Encoding: base64\n\n@@@ not base64 @@@\n'
        parts = {'attblock-ok': [good, good], 'attblock-bad': [broken, good], 'attblock-badlast': [good, broken]}[kind]
        body = b''.join(b'--zz\n' + p for p in parts) + b'--zz--\n'
        return name, hdr + b'X-Marker: ' + mk + b'\nContent-Type: multipart/mixed; boundary="zz"\n\n' + body
    elif kind == 'flags-ok':
        name += ':2,FS'
    elif kind == 'flags-bad':
        name += ':1,S'
    return name, hdr + b'\n' + body


CONF = '''maildir "%(src)s" {
	match header "X-Kind" /^date/ and date > 1 seconds move "%(dst)s/ok"
	match header "X-Kind" /^b64/ and body /needle/ move "%(dst)s/ok"
	match header "X-Kind" /^mime/ and attachment header "Content-Type" /text/ move "%(dst)s/ok"
	match header "X-Kind" /^dest:(.*)$/ move "%(dst)s/\\1"
	match header "X-Kind" /^exec:([0-9]+)$/ exec { "sh" "-c" "exit \\1" } move "%(dst)s/ok"
	match header "X-Kind" /^interp/ move "%(dst)s/\\5"
	match header "X-Kind" /^cmdinterp/ and command { "true" "\\5" } move "%(dst)s/ok2"
	match header "X-Kind" /^dirinterp/ and ! isdirectory "%(dst)s/\\5" move "%(dst)s/ok2"
	match header "X-Kind" /^cmdarg:([0-9]+)$/ and command { "sh" "-c" "exit \\1" } move "%(dst)s/ok"
	match header "X-Kind" /^attblock/ attachment {
		match body /needle/ exec { "sh" "-c" "echo ran >> %(dst)s/ran-`basename $0`" "${path}" }
	}
	match all move "%(dst)s/ok"
}
'''


def population_run(ck, rng, stats, samples):
    sb = mdrun.Sandbox()
    dst = os.path.join(sb.root, 'dst')
    os.makedirs(dst)
    for d in ('ok', 'ok2'):
        for s in ('new', 'cur'):
            os.makedirs(os.path.join(dst, d, s))
    nmd = rng.choice([1, 2, 3])
    confs = []
    expect = {}           # marker -> (healthy, original (md, sub, name, content, kind))
    outcome_strings = []
    idx = 0
    for m in range(nmd):
        unusable = rng.randrange(5) == 0 and nmd > 1
        src = sb.maildir('src%d' % m)
        if unusable:
            import shutil
            shutil.rmtree(os.path.join(src, 'new'))           # opendir fails for this maildir
            outcome_strings.append('X')
            confs.append(CONF % {'src': src, 'dst': dst})
            continue
        n = rng.choice([1, 2, 4, 7])
        pbad = rng.choice([0.0, 0.2, 0.5, 1.0])
        outs = {'new': [], 'cur': []}
        for _ in range(n):
            kind = rng.choice(KINDS_BAD) if rng.random() < pbad else rng.choice(KINDS_OK)
            name, content = make_message(kind, idx)
            sub = rng.choice(['new', 'cur'])
            sb.add(src, sub, content, name=name, mtime=1500000000)
            expect[iorun.marker(idx)] = (kind in KINDS_OK, ('src%d' % m, sub, name, content, kind))
            outs[sub].append('d' if kind in KINDS_OK else 'e')
            idx += 1
        outcome_strings.append(''.join(outs['new'] + outs['cur']) or '-')
        confs.append(CONF % {'src': src, 'dst': dst})
    conf = sb.write_conf(''.join(confs))
    rc, out, err = sb.run([], conf=conf)
    stats['runs'] += 1
    # model: exit status from the outcome lists
    mreq = 'main 0 1 0 ' + ' '.join(outcome_strings)
    mresp = common.run_lines(common.model_exe(), [mreq])[0][0]
    mstatus = int(mresp.split()[0])
    anybad = any(not h for h, _ in expect.values()) or 'X' in outcome_strings
    rep = {'config': open(conf).read(), 'population': [[mk.decode(), e[1][4], e[1][1], e[1][2]] for mk, e in expect.items()], 'exit': rc,
           'stderr': err[-600:].decode(errors='replace'), 'model_request': mreq}
    # monitor
    after = {}
    for md in ['src%d' % m for m in range(nmd)] + ['dst/ok', 'dst/ok2']:
        p = os.path.join(sb.root, md)
        if os.path.isdir(p):
            for (sub, n), (b, mt) in sb.snapshot(p, with_mtime=True).items():
                after[(md, sub, n)] = (b, mt)
    bad = None
    for mk, (healthy, (md, sub, name, content, kind)) in expect.items():
        stats['msgs'] += 1
        stats['kinds'][kind] = stats['kinds'].get(kind, 0) + 1
        here = [loc for loc, (b, mt) in after.items() if mk in b]
        if kind.startswith('attblock'):
            # exec-only rule: the message stays; the command runs once per matching part - and not at all
            # when a part of the message is defective
            ran = os.path.join(dst, 'ran-' + name)
            nran = len(open(ran).read().split()) if os.path.exists(ran) else 0
            if here != [(md, sub, name)]:
                bad = 'attachment-block message %s moved or lost: %s' % (mk.decode(), here)
            elif healthy and nran != 2:
                bad = 'attachment block: command ran %d time(s) for the 2 matching parts of %s' % (nran, mk.decode())
            elif not healthy and kind == 'attblock-bad' and nran != 0:
                bad = 'attachment block: command ran %d time(s) although part 1 of %s is undecodable (must be an error, never a match)' % (nran, mk.decode())
        elif healthy:
            want_md = 'dst/ok2' if kind == 'dest:ok2' else 'dst/ok'
            if len(here) != 1 or here[0][0] != want_md or after[here[0]][0] != content:
                bad = 'healthy message %s (%s) was not processed completely: found at %s' % (mk.decode(), kind, here)
        else:
            if here != [(md, sub, name)] or after[here[0]] != (content, 1500000000 * 10 ** 9):
                bad = 'defective message %s (%s) did not stay untouched: found at %s' % (mk.decode(), kind, here)
        if bad:
            break
    if not bad and (rc != 0) != anybad:
        bad = 'exit status %d although %s' % (rc, 'a message / maildir is defective' if anybad else 'nothing is defective')
    if bad:
        ck.violation(bad, rep)
    elif rc != mstatus:
        ck.violation('correspondence broken: MainDefs.main predicts exit %d, mdsort exits %d' % (mstatus, rc),
                     dict(rep, obligation='correspondence MainDefs.main'), found_input=False)
    if len(samples) < 3:
        samples.append({'outcomes_per_maildir': outcome_strings, 'exit': rc})
    sb.cleanup()


STDIN_CASES = [
    # (rule, message kind, expected status, outcome letter, delivered?)
    ('match all move "%(dst)s/ok"', 'plain', 0, 'd', True),
    ('match all discard', 'plain', 0, 'd', False),
    ('match all reject', 'plain', 1, 'r', False),
    ('match header "X-Kind" /nomatch/ move "%(dst)s/ok"', 'plain', 0, 'n', False),
    ('match all move "%(dst)s/nowhere"', 'plain', 75, 'e', False),
    ('match all move "%(dst)s/\\5"', 'plain', 75, 'e', False),
    # a condition whose arguments cannot be interpolated is an error, not a condition that does not hold
    ('match command { "true" "\\0" } move "%(dst)s/ok"', 'plain', 75, 'e', False),
    ('match header "To" /(u)/ and command { "true" "\\7" } move "%(dst)s/ok"\n\tmatch all move "%(dst)s/ok"', 'plain', 75, 'e', False),
    ('match ! isdirectory "%(dst)s/\\3" move "%(dst)s/ok"\n\tmatch all move "%(dst)s/ok"', 'plain', 75, 'e', False),
    ('match date > 1 seconds move "%(dst)s/ok"', 'date-bad', 75, 'e', False),
    ('match body /needle/ move "%(dst)s/ok"', 'b64-bad', 75, 'e', False),
    ('match attachment header "Content-Type" /text/ move "%(dst)s/ok"', 'mime-deep', 75, 'e', False),
    ('match all exec { "sh" "-c" "exit 3" } move "%(dst)s/ok"', 'plain', 75, 'e', False),
    ('match all exec { "sh" "-c" "exit 0" } move "%(dst)s/ok"', 'plain', 0, 'd', True),
    ('match all label "x" move "%(dst)s/ok"', 'plain', 0, 'd', True),
    # several location actions in one rule: wherever they take the message, status 0 means it is stored
    ('match all move "%(dst)s/ok" flag !new', 'plain', 0, 'd', True),
    ('match all add-header "X-A" "b" move "%(dst)s/ok" flag new', 'plain', 0, 'd', True),
    ('match all move "%(dst)s/ok" flags "F"', 'plain', 0, 'd', True),          # F-25 on the unchanged tree
    ('match all move "%(dst)s/ok" pass\n\tmatch all flags "T"', 'plain', 0, 'd', True),          # F-25 through pass
    # the input of an exec action cannot be prepared: an error for the message, whatever the command would have done
    ('match all exec stdin body { "sh" "-c" "cat >/dev/null" }', 'b64-bad', 75, 'e', False),
    ('match all exec stdin body { "sh" "-c" "cat >/dev/null" } move "%(dst)s/ok"', 'b64-bad', 75, 'e', False),
    ('match all exec stdin { "sh" "-c" "cat >/dev/null" } move "%(dst)s/ok"', 'b64-bad', 0, 'd', True),     # the raw message is piped: fine
    ('match all exec stdin body { "sh" "-c" "cat >/dev/null" } move "%(dst)s/ok"', 'plain', 0, 'd', True),
    ('match all attachment { match all exec stdin { "sh" "-c" "cat >/dev/null" } }', 'mime-deep', 75, 'e', False),
]


def stdin_run(ck, stats, case, i):
    rule, kind, want, letter, delivered = case
    sb = mdrun.Sandbox()
    dst = os.path.join(sb.root, 'dst')
    for s in ('new', 'cur'):
        os.makedirs(os.path.join(dst, 'ok', s))
    name, content = make_message(kind, i)
    conf = sb.write_conf('stdin {\n\t%s\n}\n' % (rule % {'dst': dst}))
    rc, out, err = sb.run(['-'], conf=conf, stdin=content)
    stats['runs'] += 1
    stats['stdin'] += 1
    left = sorted(os.listdir(sb.tmp))
    got = sb.snapshot(os.path.join(dst, 'ok'))
    rep = {'config': open(conf).read(), 'kind': kind, 'exit': rc, 'stderr': err[-400:].decode(errors='replace')}
    mk = iorun.marker(i)
    stored = [b for b in got.values() if mk in b]
    mstatus = int(common.run_lines(common.model_exe(), ['main 1 1 0 ' + letter])[0][0].split()[0])
    if left:
        ck.violation('stdin: the temporary spool directory is left behind: %r (rule %r)' % (left, rule), rep)
    elif rc not in (0, 1, 75):
        ck.violation('stdin: exit status %d is none of 0, 1, 75 (rule %r)' % (rc, rule), rep)
    elif rc == 0 and not stored and letter == 'n':
        key = 'F-12-stdin-nomatch-exit-0'
        if ck.is_known(key):
            ck.known_finding(key, 'rule %r: exit 0, message gone with the spool' % rule)
        else:
            ck.violation('stdin: exit 0 but the message was neither stored nor discarded (no rule matched)', rep)
    elif rc == 0 and delivered and len(stored) != 1 and re.search(r'move "[^"]*"( pass\s+match all)? flags "', rule) and ck.is_known('F-25-stdin-move-then-flags-lost'):
        ck.known_finding('F-25-stdin-move-then-flags-lost', 'rule %r: exit 0, the message is stored nowhere' % rule)
    elif rc == 0 and delivered and len(stored) != 1:
        ck.violation('stdin: exit 0 but the message is not stored intact at its destination (rule %r)' % rule, rep)
    elif rc != want:
        ck.violation('stdin: exit %d, expected %d (rule %r, message %s)' % (rc, want, rule, kind), rep)
    elif rc != mstatus:
        ck.violation('correspondence broken: MainDefs.main predicts %d for outcome %r, mdsort exits %d' % (mstatus, letter, rc),
                     dict(rep, obligation='correspondence MainDefs.main (stdin)'), found_input=False)
    sb.cleanup()


def defect_after_healthy_stage(ck, stats):
    """a defective message is recognised as such whatever healthy messages were processed before it in the same run (new/ is walked
    before cur/): a Date without zone after Dates with zone abbreviations, an undecodable body after a decodable one, ..."""
    cases = [('date-okabbr', 'date-nozone'), ('date-ok', 'date-nozone'), ('date-okabbr', 'date-bad'), ('b64-ok', 'b64-bad'), ('mime-ok', 'mime-noterm'),
             ('exec:0', 'exec:3'), ('cmdarg:0', 'cmdinterp')]
    for ok_kind, bad_kind in cases:
        sb = mdrun.Sandbox()
        dst = os.path.join(sb.root, 'dst'); os.makedirs(dst)
        for d in ('ok', 'ok2'):
            for s_ in ('new', 'cur'):
                os.makedirs(os.path.join(dst, d, s_))
        src = sb.maildir('src0')
        placed = []
        for i, (kind, sub) in enumerate([(ok_kind, 'new'), (ok_kind, 'new'), (bad_kind, 'cur'), (ok_kind, 'cur')]):
            name, content = make_message(kind, i)
            sb.add(src, sub, content, name=name, mtime=1500000000)
            placed.append((kind, sub, name, content))
        conf = sb.write_conf(CONF % {'src': src, 'dst': dst})
        rc, out, err = sb.run([], conf=conf)
        stats['runs'] += 1
        left = sb.snapshot(src)
        badk, bads, badn, badc = placed[2]
        moved_ok = sum(1 for b in sb.snapshot(os.path.join(dst, 'ok')).values() if any(b == p[3] for p in placed if p[0] == ok_kind))
        rep = {'config': open(conf).read(), 'kinds': [p[0] for p in placed], 'exit': rc, 'stderr': err[-400:].decode(errors='replace')}
        if left.get((bads, badn)) != badc:
            ck.violation('a %s message processed after healthy %s messages did not stay untouched (exit %d)' % (bad_kind, ok_kind, rc), rep)
        elif rc == 0:
            ck.violation('a %s message processed after healthy %s messages: exit status 0' % (bad_kind, ok_kind), rep)
        elif moved_ok != 3:
            ck.violation('%d of the 3 healthy %s messages around a %s one were processed' % (moved_ok, ok_kind, bad_kind), rep)
        sb.cleanup()


def many_defective_stage(ck, stats):
    """error isolation does not wear out: 120 messages refused for their names (invalid flag suffix) are walked before the healthy ones, under a
    descriptor limit of 40 - every refusal releases what it opened, the healthy messages and the second maildir are still processed"""
    sb = mdrun.Sandbox()
    dst = os.path.join(sb.root, 'dst'); os.makedirs(dst)
    for d in ('ok', 'ok2'):
        for s_ in ('new', 'cur'):
            os.makedirs(os.path.join(dst, d, s_))
    src = sb.maildir('src0'); src1 = sb.maildir('src1')
    for i in range(120):
        name, content = make_message('flags-bad', i)
        sb.add(src, 'new', content, name=name, mtime=1500000000)
    healthy = []
    for i, (md, sub) in enumerate([(src, 'cur'), (src, 'cur'), (src1, 'new'), (src1, 'cur')]):
        name, content = make_message('plain', 500 + i)
        sb.add(md, sub, content, name=name, mtime=1500000000)
        healthy.append(content)
    conf = sb.write_conf((CONF % {'src': src, 'dst': dst}) + (CONF % {'src': src1, 'dst': dst}))
    rc, out, err = sb.run([], conf=conf, wrapper=['sh', '-c', 'ulimit -n 40; exec "$@"', 'sh'])
    stats['runs'] += 1
    got = list(sb.snapshot(os.path.join(dst, 'ok')).values())
    nleft = len(sb.snapshot(src))
    if rc == 0 or sorted(got) != sorted(healthy) or nleft != 120:
        ck.violation('120 messages with an invalid flag suffix followed by 4 healthy ones in two maildirs, 40 descriptors allowed: %d healthy message(s) processed, '
                     '%d left in the first maildir, exit %d (%r)' % (len([g for g in got if g in healthy]), nleft, rc, err[-200:]),
                     {'config': open(conf).read()[:600], 'exit': rc, 'stderr': err[-600:].decode(errors='replace')})
    sb.cleanup()


def unusable_stage(ck, stats):
    """maildirs that cannot be used (missing, a file, new/ or cur/ missing or a file) next to a healthy one, and commands that
    exist but cannot be executed: a non-zero status, the healthy maildir still processed"""
    import stat as st_
    kinds = ['missing', 'is-file', 'new-missing', 'cur-missing', 'new-is-file', 'cur-is-file']
    for kind in kinds:
        for order in (0, 1):
            sb = mdrun.Sandbox()
            good = sb.maildir('good'); dst = sb.maildir('dst')
            bad = os.path.join(sb.root, 'bad')
            if kind == 'is-file':
                open(bad, 'w').close()
            elif kind != 'missing':
                for s_ in ('new', 'cur', 'tmp'):
                    os.makedirs(os.path.join(bad, s_))
                sub = kind.split('-')[0]
                os.rmdir(os.path.join(bad, sub))
                if kind.endswith('is-file'):
                    open(os.path.join(bad, sub), 'w').close()
                else:
                    pass
                other = 'cur' if sub == 'new' else 'new'
                with open(os.path.join(bad, other, '1500000000.9_1.h' + (':2,S' if other == 'cur' else '')), 'wb') as f:
                    f.write(b'To: a\n\nin the damaged maildir\n')
            sb.add(good, 'new', b'To: a\n\nUNUSABLE-GOOD\n')
            mds = [bad, good] if order == 0 else [good, bad]
            conf = sb.write_conf(''.join('maildir "%s" {\n\tmatch all move "%s"\n}\n' % (m, dst) for m in mds))
            rc, out, err = sb.run([], conf=conf)
            stats['runs'] += 1; stats['unusable'] = stats.get('unusable', 0) + 1
            moved = [b for b in sb.snapshot(dst).values() if b'UNUSABLE-GOOD' in b]
            rep = {'kind': kind, 'order': order, 'exit': rc, 'stderr': err[-300:].decode(errors='replace')}
            if rc == 0:
                ck.violation('a maildir that is unusable (%s) is processed with exit status 0 (stderr %r)' % (kind, err[-120:]), rep)
            elif len(moved) != 1:
                ck.violation('an unusable maildir (%s, listed %s) prevents the healthy one from being processed (exit %d)' % (kind, 'first' if order == 0 else 'last', rc), rep)
            sb.cleanup()
    # programs that exist but cannot be executed
    for what in ('no-x-bit', 'directory', 'below-a-file'):
        for stdin_mode in (False, True):
            sb = mdrun.Sandbox()
            src = sb.maildir('src'); dst = sb.maildir('dst')
            prog = os.path.join(sb.root, 'prog')
            if what == 'no-x-bit':
                with open(prog, 'w') as f:
                    f.write('#!/bin/sh\nexit 0\n')
                os.chmod(prog, 0o644)
            elif what == 'directory':
                os.makedirs(prog)
            else:
                open(prog, 'w').close(); prog = prog + '/sub'
            msg = b'To: a\n\nUNUSABLE-CMD\n'
            for cond, want_err in (('command "%s"' % prog, True), ('! command "%s"' % prog, True)):
                head = 'stdin' if stdin_mode else 'maildir "%s"' % src
                conf = sb.write_conf('%s {\n\tmatch %s move "%s"\n\tmatch all move "%s"\n}\n' % (head, cond, dst, dst))
                if not stdin_mode:
                    for k in sb.snapshot(src):
                        os.unlink(os.path.join(src, k[0], k[1]))
                    sb.add(src, 'new', msg)
                for k in sb.snapshot(dst):
                    os.unlink(os.path.join(dst, k[0], k[1]))
                rc, out, err = sb.run(['-'] if stdin_mode else [], conf=conf, stdin=msg if stdin_mode else None)
                stats['runs'] += 1; stats['unusable'] = stats.get('unusable', 0) + 1
                moved = len(sb.snapshot(dst))
                rep = {'program': what, 'stdin': stdin_mode, 'condition': cond, 'exit': rc, 'stderr': err[-300:].decode(errors='replace')}
                if os.geteuid() == 0 and what == 'no-x-bit':
                    pass        # (execve of a file without x bit fails for root as well: EACCES)
                if rc == 0 or moved:
                    ck.violation('a command that cannot be executed (%s) is not an error: exit %d, %d message(s) delivered (%s)' % (what, rc, moved, cond), rep)
                elif stdin_mode and rc != 75:
                    ck.violation('stdin mode: a command that cannot be executed (%s) gives exit %d instead of 75' % (what, rc), rep)
            sb.cleanup()


def stdin_fault_runs(ck, stats):
    """every single fault on every call of a stdin delivery: status must be 75 (or 0 with the message stored)"""
    for scen in iorun.corpus('quick'):
        if not scen.stdin or 'discard' in scen.rule:
            continue
        rc0, err0, trace0, tree0, tl0 = scen.run()
        calls0 = iorun.parse_trace(trace0)
        for c in calls0:
            for kind in c01.fault_list(c, 'quick'):
                plan = '%d:%s' % (c['k'], kind)
                rc, err, trace, tree, tl = scen.run(plan=plan)
                stats['runs'] += 1
                stats['stdin_faults'] += 1
                calls = iorun.parse_trace(trace)
                call = [x for x in calls if x['k'] == c['k']]
                injected = bool(call) and not call[0]['ok']
                stored = [b for (md, sub, n), (b, mt) in tree.items() if iorun.marker(0) in b and md in ('dst', 'other')]
                rep = {'scenario': scen.describe(), 'plan': plan, 'exit': rc, 'stderr': err[-300:].decode(errors='replace')}
                if rc not in (0, 75):
                    ck.violation('stdin %s, %s: exit status %d (must be 0 or 75)' % (scen.sid, plan, rc), rep)
                elif rc == 0 and len(stored) != 1:
                    ck.violation('stdin %s, %s: exit 0 but the message is not stored' % (scen.sid, plan), rep)
                elif rc == 0 and injected:
                    tol = c01.tolerated_call(call[0], calls, calls.index(call[0]), scen)
                    if tol is None:
                        ck.violation('stdin %s, %s: the failure is not reported (exit 0)' % (scen.sid, plan), rep)
                if tl and not (injected and call[0]['call'] in ('rmdir', 'unlinkat', 'readdir', 'mkdtemp')):
                    ck.violation('stdin %s, %s: spool directory left behind %r' % (scen.sid, plan, tl), rep)
                if len(ck.violations) > 6:
                    return


def run(ck):
    rng = ck.rng
    stats = dict(runs=0, msgs=0, kinds={}, stdin=0, stdin_faults=0)
    samples = []
    n = 40 if ck.tier == 'quick' else 600
    for i in range(n):
        population_run(ck, rng, stats, samples)
        if len(ck.violations) > 6:
            break
    for i, case in enumerate(STDIN_CASES):
        stdin_run(ck, stats, case, i)
    stdin_fault_runs(ck, stats)
    defect_after_healthy_stage(ck, stats)
    many_defective_stage(ck, stats)
    unusable_stage(ck, stats)
    ck.coverage.update({
        'evaluations': stats['runs'],
        'distinct_nontrivial': stats['msgs'] + stats['stdin'] + stats['stdin_faults'],
        'rule': 'populations of 1-3 maildirs x 1-7 messages, each message healthy or carrying one defect from {date-bad, b64-bad, mime-deep, mime-noterm, '
                'dest:nowhere, exec:3, interp, flags-bad}, defect probability 0 / 0.2 / 0.5 / 1, occasionally an unusable maildir; stdin: 17 rule/message '
                'cases and every call index x failure of a stdin delivery; 12 runs with a damaged maildir (missing, a file, new/ or cur/ missing or a file) beside a healthy one and 12 with a command that exists but cannot be executed. non-trivial = one message verdict (or one stdin run); counted per message',
        'samples': samples,
        'traces_validated_against_impl': stats['runs'],
        'messages_per_kind': stats['kinds'],
        'stdin_cases': stats['stdin'], 'stdin_fault_runs': stats['stdin_faults'], 'unusable_maildir_and_command_runs': stats.get('unusable', 0),
    })
    ck.assumptions += ['sh is available for exec actions', 'outcome per message as observed on the tree (processed completely / untouched)']


def replay(ck, rp):
    print('replay not automated for population runs; configuration and population are in the replay file')
    return 1
