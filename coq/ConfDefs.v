(* M10: the configuration language: the lexer of parse.y (yylex1, yypeek: strings and patterns with
   escaped delimiters, the lexeme bound, 32-bit integers, keywords, scalar prefixes, comments), a
   recursive-descent recogniser for its grammar with the semantic checks made while parsing
   (expr_validate, attachment blocks, empty blocks, reject outside stdin, second stdin, exec options,
   pattern flags, age overflow, macro definition / expansion / contexts / unused macros, tilde
   expansion with the PATH_MAX bound), producing the tree config_parse builds.
   The yacc automaton and its error recovery are NOT modelled: the recogniser stops at the first
   diagnostic (the file is rejected as a whole whatever follows).  regcomp is an oracle.  No proofs. *)
From MD Require Import Bytes Generated InterpDefs.
Local Open Scope N_scope.

Inductive pres (A : Type) := POk (a : A) (rest : bytes) | PErr | PFuel.
Arguments POk {A} a rest.
Arguments PErr {A}.
Arguments PFuel {A}.

Definition u32max : N := 4294967295.
Definition kw (s : bytes) : bytes := s.

(* ---- lexer ------------------------------------------------------------------------------------ *)
(* white space and comments in front of a token *)
Fixpoint skip_blank (in_comment : bool) (s : bytes) : bytes :=
  match s with
  | [] => []
  | c :: r =>
      if in_comment then skip_blank (negb (c =? 10)) r
      else if isspace c then skip_blank false r
      else if c =? 35 then skip_blank true r
      else s
  end.

Fixpoint skip_ws (s : bytes) : bytes :=
  match s with c :: r => if isspace c then skip_ws r else s | [] => [] end.

(* the body of a string / pattern up to the unescaped delimiter (yypeek): backslash + delimiter stores
   the delimiter, any other backslash is an ordinary character; at most bufsiz - 1 bytes are stored *)
Fixpoint lex_delim (delim : N) (s : bytes) (acc_rev : bytes) (stored : N) : option (bytes * bytes) :=
  match s with
  | [] => None                                         (* unterminated *)
  | c :: r =>
      if c =? delim then Some (rev acc_rev, r)
      else if stored =? bufsiz - 1 then None           (* too long *)
      else if (c =? 92) && (match r with cc :: _ => cc =? delim | [] => false end)
           then match r with
                | cc :: r' => lex_delim delim r' (cc :: acc_rev) (stored + 1)
                | [] => None
                end
           else lex_delim delim r (c :: acc_rev) (stored + 1)
  end.

Fixpoint take_while (f : N -> bool) (s : bytes) : bytes * bytes :=
  match s with
  | c :: r => if f c then let (a, b) := take_while f r in (c :: a, b) else ([], s)
  | [] => ([], [])
  end.

Definition wordchar (c : N) : bool := islower c || (c =? 45).

(* digits with the 32-bit overflow checks; None = "integer too large" *)
Fixpoint lex_int (s : bytes) (acc : N) : option (N * bytes) :=
  match s with
  | c :: r => if isdigit c then
                let v := acc * 10 + (c - 48) in
                if (u32max <? acc * 10) || (u32max <? v) then None else lex_int r v
              else Some (acc, s)
  | [] => Some (acc, [])
  end.

Inductive tok :=
| TEOF | TNeg | TStr (s : bytes) | TInt (n : N) | TKw (k : bytes) | TWord (w : bytes) | TChar (c : N).

Definition is_keyword (w : bytes) : bool := existsb (beq_bytes w) keywords.

(* yylex1 with pflag = sflag = 0 *)
Definition lex (s : bytes) : pres tok :=
  match skip_blank false s with
  | [] => POk TEOF []
  | c :: r =>
      if c =? 33 then POk TNeg r
      else if c =? 34 then
        match lex_delim 34 r [] 0 with
        | None => PErr
        | Some (str, rest) => match cview str with [] => PErr (* empty string *) | v => POk (TStr v) rest end
        end
      else if isdigit c then
        match lex_int (c :: r) 0 with None => PErr | Some (n, rest) => POk (TInt n) rest end
      else if islower c then
        let (w, rest) := take_while wordchar (c :: r) in
        if bufsiz - 1 <? N.of_nat (length w) then PErr      (* keyword too long *)
        else if is_keyword w then POk (TKw w) rest else POk (TWord w) rest
      else POk (TChar c) r
  end.

(* yylex1 with pflag = 1: the token must be a PATTERN *)
Fixpoint pat_flags (s : bytes) (ic lc uc : bool) : option (bool * bool * bool * bytes) :=
  match s with
  | c :: r =>
      if c =? 105 then pat_flags r true lc uc
      else if c =? 108 then (if uc then None else pat_flags r ic true uc)
      else if c =? 117 then (if lc then None else pat_flags r ic lc true)
      else Some (ic, lc, uc, s)
  | [] => Some (ic, lc, uc, [])
  end.

Record pat := mkpat { p_src : bytes; p_icase : bool; p_lcase : bool; p_ucase : bool }.

Definition lex_pattern (s : bytes) : pres pat :=
  match skip_blank false s with
  | [] => PErr
  | c :: r =>
      if (c =? 33) || (c =? 34) then PErr               (* NEG / STRING where a pattern is expected *)
      else match lex_delim c r [] 0 with
           | None => PErr
           | Some (src, rest) =>
               match pat_flags rest false false false with
               | None => PErr
               | Some (ic, lc, uc, rest') => POk (mkpat (cview src) ic lc uc) rest'
               end
           end
  end.

(* yylex1 with sflag = 1: the token must be a SCALAR *)
Fixpoint scalar_matches (w : bytes) (l : list (bytes * Z)) : list Z :=
  match l with
  | [] => []
  | (name, v) :: r => if prefixb w name then v :: scalar_matches w r else scalar_matches w r
  end.

Definition lex_scalar (s : bytes) : pres N :=
  match skip_blank false s with
  | c :: r =>
      if islower c then
        let (w, rest) := take_while wordchar (c :: r) in
        if bufsiz - 1 <? N.of_nat (length w) then PErr
        else if is_keyword w then PErr
        else match scalar_matches w scalars with
             | [v] => POk (Z.to_N v) rest
             | _ => PErr                                 (* ambiguous, or an unknown word (MACRO token) *)
             end
      else PErr
  | [] => PErr
  end.

(* ---- the tree ------------------------------------------------------------------------------------- *)
Inductive cexpr :=
| QBlock (body : option cexpr)
| QOr (l r : cexpr) | QAnd (l r : cexpr)
| QMatch (c : cexpr) (a : cexpr)
| QNeg (e : cexpr) | QAttachment (e : cexpr)
| QBody (p : pat) | QHeader (keys : list bytes) (p : pat)
| QDate (field : N) (gt : bool) (age : N)
| QNew | QOld | QAll | QStat (path : bytes) | QCommand (l : list bytes)
| QBreak | QMove (path : bytes) | QFlag (sub : bytes) | QFlags (s : bytes) | QDiscard
| QLabel (l : list bytes) | QPass | QReject | QExec (stdin body : bool) (l : list bytes)
| QAttBlock (b : cexpr) | QAddHeader (k v : bytes).

Fixpoint count_actions (e : cexpr) : nat :=
  match e with
  | QBlock (Some b) => count_actions b
  | QBlock None => O
  | QOr l r | QAnd l r | QMatch l r => count_actions l + count_actions r
  | QNeg x | QAttachment x => count_actions x
  | QAttBlock b => S (count_actions b)
  | QBreak | QMove _ | QFlag _ | QFlags _ | QDiscard | QLabel _ | QPass | QReject | QExec _ _ _ | QAddHeader _ _ => 1
  | _ => O
  end.

Fixpoint count_if (f : cexpr -> bool) (e : cexpr) : nat :=
  ((if f e then 1 else 0) +
   match e with
   | QBlock (Some b) => count_if f b
   | QOr l r | QAnd l r | QMatch l r => count_if f l + count_if f r
   | QNeg x | QAttachment x | QAttBlock x => count_if f x
   | _ => O
   end)%nat.

Definition is_discard (e : cexpr) := match e with QDiscard => true | _ => false end.
Definition is_reject (e : cexpr) := match e with QReject => true | _ => false end.
Definition is_exec (e : cexpr) := match e with QExec _ _ _ => true | _ => false end.

(* expr_validate on a non-empty action chain *)
Definition validate_actions (a : cexpr) : bool :=
  if Nat.ltb 1 (count_actions a)
  then Nat.eqb (count_if is_discard a) 0 && Nat.eqb (count_if is_reject a) 0
  else true.

(* expr_validate_attachment_block *)
Definition validate_attachment_block (b : cexpr) : bool := Nat.leb (count_actions b) (count_if is_exec b).

(* ---- macros, tilde --------------------------------------------------------------------------------- *)
Record macro := mkmacro { mc_name : bytes; mc_value : bytes; mc_refs : nat }.

Definition s_path : bytes := kw [112; 97; 116; 104].
Definition s_dev_stdin : bytes := kw [47; 100; 101; 118; 47; 115; 116; 100; 105; 110].

Fixpoint mfind (ms : list macro) (name : bytes) : option bytes :=
  match ms with
  | [] => None
  | m :: r => if beq_bytes (mc_name m) name then Some (mc_value m) else mfind r name
  end.

Fixpoint mref (ms : list macro) (name : bytes) : list macro :=
  match ms with
  | [] => []
  | m :: r => if beq_bytes (mc_name m) name then mkmacro (mc_name m) (mc_value m) (S (mc_refs m)) :: r else m :: mref r name
  end.

(* expandmacros: None = a diagnostic; the table comes back with the reference counts *)
Fixpoint expand_macros (fuel : nat) (ms : list macro) (action_ctx : bool) (s : bytes) : option (bytes * list macro) :=
  match fuel with
  | O => None
  | S f =>
      match s with
      | [] => Some ([], ms)
      | c :: r =>
          match ismacro s with
          | MacErr => None                                           (* unterminated macro *)
          | Mac name rest =>
              if beq_bytes name s_path then
                if action_ctx then                                    (* left for interpolation time *)
                  match expand_macros f ms action_ctx r with Some (o, ms') => Some (c :: o, ms') | None => None end
                else None                                             (* macro used in wrong context *)
              else match mfind ms name with
                   | None => None                                     (* unknown macro *)
                   | Some v => match expand_macros f (mref ms name) action_ctx rest with
                               | Some (o, ms') => Some (v ++ o, ms')
                               | None => None
                               end
                   end
          | MacNone => match expand_macros f ms action_ctx r with Some (o, ms') => Some (c :: o, ms') | None => None end
          end
      end
  end.

Section Parse.
  Variable home : bytes.
  Variable regcomp_ok : pat -> bool.

  Definition expand_tilde (s : bytes) : option bytes :=
    match s with
    | 126 :: r => let v := home ++ r in if N.of_nat (length v) <? path_max then Some v else None
    | _ => Some s
    end.

  (* expand(): tilde first, then macros; strings are C strings *)
  Definition expand (ms : list macro) (action_ctx : bool) (s : bytes) : option (bytes * list macro) :=
    match expand_tilde s with
    | None => None
    | Some t => expand_macros (S (length t)) ms action_ctx t
    end.

  Fixpoint expand_all (ms : list macro) (action_ctx : bool) (l : list bytes) : option (list bytes * list macro) :=
    match l with
    | [] => Some ([], ms)
    | s :: r => match expand ms action_ctx s with
                | None => None
                | Some (v, ms1) => match expand_all ms1 action_ctx r with
                                   | Some (vs, ms2) => Some (v :: vs, ms2)
                                   | None => None
                                   end
                end
    end.

  (* ---- grammar ------------------------------------------------------------------------------------- *)
  Definition k_and := kw [97;110;100].
  Definition k_or := kw [111;114].
  Definition k_attachment := kw [97;116;116;97;99;104;109;101;110;116].
  Definition k_body := kw [98;111;100;121].
  Definition k_header := kw [104;101;97;100;101;114].
  Definition k_date := kw [100;97;116;101].
  Definition k_new := kw [110;101;119].
  Definition k_old := kw [111;108;100].
  Definition k_all := kw [97;108;108].
  Definition k_isdirectory := kw [105;115;100;105;114;101;99;116;111;114;121].
  Definition k_command := kw [99;111;109;109;97;110;100].
  Definition k_access := kw [97;99;99;101;115;115].
  Definition k_modified := kw [109;111;100;105;102;105;101;100].
  Definition k_created := kw [99;114;101;97;116;101;100].
  Definition k_match := kw [109;97;116;99;104].
  Definition k_break := kw [98;114;101;97;107].
  Definition k_move := kw [109;111;118;101].
  Definition k_flag := kw [102;108;97;103].
  Definition k_flags := kw [102;108;97;103;115].
  Definition k_discard := kw [100;105;115;99;97;114;100].
  Definition k_label := kw [108;97;98;101;108].
  Definition k_pass := kw [112;97;115;115].
  Definition k_reject := kw [114;101;106;101;99;116].
  Definition k_exec := kw [101;120;101;99].
  Definition k_addheader := kw [97;100;100;45;104;101;97;100;101;114].
  Definition k_maildir := kw [109;97;105;108;100;105;114].
  Definition k_stdin := kw [115;116;100;105;110].
  Definition s_cur := kw [99;117;114].

  (* strings: STRING | '{' STRING* '}' *)
  Fixpoint string_block (fuel : nat) (s : bytes) : pres (list bytes) :=
    match fuel with
    | O => PFuel
    | S f =>
        match lex s with
        | POk (TStr x) r => match string_block f r with POk l r' => POk (x :: l) r' | e => e end
        | POk (TChar 125) r => POk [] r
        | PFuel => PFuel
        | _ => PErr
        end
    end.

  Definition strings (fuel : nat) (s : bytes) : pres (list bytes) :=
    match lex s with
    | POk (TStr x) r => POk [x] r
    | POk (TChar 123) r => string_block fuel r
    | PFuel => PFuel
    | _ => PErr
    end.

  Definition one_string (s : bytes) : pres bytes :=
    match lex s with POk (TStr x) r => POk x r | PFuel => PFuel | _ => PErr end.

  (* the state threaded through the parse: the macro table *)
  Definition st := list macro.

  Inductive sres (A : Type) := SOk (a : A) (rest : bytes) (ms : st) | SErr | SFuel.
  Arguments SOk {A} a rest ms.
  Arguments SErr {A}.
  Arguments SFuel {A}.

  Definition exec_flags_then_strings (fuel : nat) (s : bytes) : pres (bool * bool * list bytes) :=
    (* exec_flags: a sequence of stdin / body, none repeated; body requires stdin *)
    let fix go (n : nat) (s : bytes) (fs fb : bool) : pres (bool * bool * list bytes) :=
      match n with
      | O => PFuel
      | S n' =>
          match lex s with
          | POk (TKw k) r =>
              if beq_bytes k k_stdin then (if fs then PErr else go n' r true fb)
              else if beq_bytes k k_body then (if fb then PErr else go n' r fs true)
              else PErr
          | PFuel => PFuel
          | POk _ _ =>
              match strings fuel s with
              | POk l r => POk (fs, fb, l) r
              | PErr => PErr
              | PFuel => PFuel
              end
          | PErr => PErr
          end
      end in
    go 4%nat s false false.

  Section CondBodies.
    Variable f : nat.
    Variable cond_ : st -> bytes -> sres cexpr.
    Variable chain_ : st -> cexpr -> bytes -> sres cexpr.
    Variable unary_ : st -> bytes -> sres cexpr.

    Definition cond_body (ms : st) (s : bytes) : sres cexpr :=
        (* expr1: a left-associative and/or chain of unary conditions *)
        match unary_ ms s with
        | SOk e r ms1 => chain_ ms1 e r
        | x => x
        end.

    Definition chain_body (ms : st) (left : cexpr) (s : bytes) : sres cexpr :=
        match lex s with
        | POk (TKw k) r =>
            if beq_bytes k k_and then
              match unary_ ms r with SOk e r' ms1 => chain_ ms1 (QAnd left e) r' | x => x end
            else if beq_bytes k k_or then
              match unary_ ms r with SOk e r' ms1 => chain_ ms1 (QOr left e) r' | x => x end
            else SOk left s ms
        | PErr => SErr
        | PFuel => SFuel
        | POk _ _ => SOk left s ms
        end.

    Definition unary_body (ms : st) (s : bytes) : sres cexpr :=
        match lex s with
        | POk TNeg r => match unary_ ms r with SOk e r' ms1 => SOk (QNeg e) r' ms1 | x => x end
        | POk (TChar 40) r =>
            match cond_ ms r with
            | SOk e r' ms1 => match lex r' with POk (TChar 41) r'' => SOk e r'' ms1 | PFuel => SFuel | _ => SErr end
            | x => x
            end
        | POk (TKw k) r =>
            if beq_bytes k k_attachment then
              match unary_ ms r with SOk e r' ms1 => SOk (QAttachment e) r' ms1 | x => x end
            else if beq_bytes k k_body then
              match lex_pattern r with
              | POk p r' => if regcomp_ok p then SOk (QBody p) r' ms else SErr
              | PErr => SErr | PFuel => SFuel
              end
            else if beq_bytes k k_header then
              match strings f r with
              | POk keys r' =>
                  match lex_pattern r' with
                  | POk p r'' =>
                      if regcomp_ok p then
                        match expand_all ms false keys with
                        | Some (keys', ms1) => SOk (QHeader keys' p) r'' ms1
                        | None => SErr
                        end
                      else SErr
                  | PErr => SErr | PFuel => SFuel
                  end
              | PErr => SErr | PFuel => SFuel
              end
            else if beq_bytes k k_date then
              (* date_field is optional *)
              let field_rest :=
                match lex r with
                | POk (TKw k2) r2 =>
                    if beq_bytes k2 k_header then Some (0, r2)
                    else if beq_bytes k2 k_access then Some (1, r2)
                    else if beq_bytes k2 k_modified then Some (2, r2)
                    else if beq_bytes k2 k_created then Some (3, r2)
                    else None
                | POk (TChar _) _ => Some (0, r)
                | _ => None
                end in
              match field_rest with
              | None => SErr
              | Some (field, r2) =>
                  match lex r2 with
                  | POk (TChar c) r3 =>
                      if (c =? 60) || (c =? 62) then
                        match lex r3 with
                        | POk (TInt n) r4 =>
                            match lex_scalar r4 with
                            | POk sc r5 => if u32max <? n * sc then SErr else SOk (QDate field (c =? 62) (n * sc)) r5 ms
                            | PErr => SErr | PFuel => SFuel
                            end
                        | PFuel => SFuel
                        | _ => SErr
                        end
                      else SErr
                  | PFuel => SFuel
                  | _ => SErr
                  end
              end
            else if beq_bytes k k_new then SOk QNew r ms
            else if beq_bytes k k_old then SOk QOld r ms
            else if beq_bytes k k_all then SOk QAll r ms
            else if beq_bytes k k_isdirectory then
              match one_string r with
              | POk x r' => match expand ms false x with Some (p, ms1) => SOk (QStat p) r' ms1 | None => SErr end
              | PErr => SErr | PFuel => SFuel
              end
            else if beq_bytes k k_command then
              match strings f r with
              | POk l r' => match expand_all ms false l with Some (l', ms1) => SOk (QCommand l') r' ms1 | None => SErr end
              | PErr => SErr | PFuel => SFuel
              end
            else SErr
        | PFuel => SFuel
        | _ => SErr
        end.
  End CondBodies.

  Fixpoint cond (fuel : nat) (ms : st) (s : bytes) {struct fuel} : sres cexpr :=
    match fuel with O => SFuel | S f => cond_body (chain f) (unary f) ms s end
  with chain (fuel : nat) (ms : st) (left : cexpr) (s : bytes) {struct fuel} : sres cexpr :=
    match fuel with O => SFuel | S f => chain_body (chain f) (unary f) ms left s end
  with unary (fuel : nat) (ms : st) (s : bytes) {struct fuel} : sres cexpr :=
    match fuel with O => SFuel | S f => unary_body f (cond f) (unary f) ms s end.

  Definition and_opt (acc : option cexpr) (e : cexpr) : option cexpr :=
    match acc with None => Some e | Some a => Some (QAnd a e) end.
  Definition or_opt (acc : option cexpr) (e : cexpr) : option cexpr :=
    match acc with None => Some e | Some a => Some (QOr a e) end.

  (* rules, actions, blocks *)
  Section BlockBodies.
    Variable f : nat.
    Variable block_ : st -> bytes -> sres cexpr.
    Variable rules_ : st -> option cexpr -> bytes -> sres cexpr.
    Variable actions_ : st -> option cexpr -> bytes -> sres cexpr.

    Definition rules_body (ms : st) (acc : option cexpr) (s : bytes) : sres cexpr :=
        match lex s with
        | POk (TChar 125) r => SOk (QBlock acc) r ms
        | POk (TKw k) r =>
            if beq_bytes k k_match then
              match cond f ms r with
              | SOk c r1 ms1 =>
                  (* expr2: a nested block or a chain of actions *)
                  match lex r1 with
                  | POk (TChar 123) r2 =>
                      match block_ ms1 r2 with
                      | SOk b r3 ms2 =>
                          if Nat.eqb (count_actions b) 0 then SErr        (* empty nested match block *)
                          else rules_ ms2 (or_opt acc (QMatch c b)) r3
                      | x => x
                      end
                  | PFuel => SFuel
                  | PErr => SErr
                  | POk _ _ =>
                      match actions_ ms1 None r1 with
                      | SOk a r3 ms2 => if validate_actions a then rules_ ms2 (or_opt acc (QMatch c a)) r3 else SErr
                      | x => x
                      end
                  end
              | x => x
              end
            else SErr
        | PFuel => SFuel
        | _ => SErr
        end.

    Definition actions_body (ms : st) (acc : option cexpr) (s : bytes) : sres cexpr :=
        let done := match acc with Some a => SOk a s ms | None => SErr (* missing action *) end in
        match lex s with
        | POk (TKw k) r =>
            if beq_bytes k k_break then actions_ ms (and_opt acc QBreak) r
            else if beq_bytes k k_move then
              match one_string r with
              | POk x r' => match expand ms true x with Some (p, ms1) => actions_ ms1 (and_opt acc (QMove p)) r' | None => SErr end
              | PErr => SErr | PFuel => SFuel
              end
            else if beq_bytes k k_flag then
              match lex r with
              | POk TNeg r' => match lex r' with
                               | POk (TKw k2) r'' => if beq_bytes k2 k_new then actions_ ms (and_opt acc (QFlag s_cur)) r'' else SErr
                               | PFuel => SFuel | _ => SErr
                               end
              | POk (TKw k2) r' => if beq_bytes k2 k_new then actions_ ms (and_opt acc (QFlag k_new)) r' else SErr
              | PFuel => SFuel
              | _ => SErr
              end
            else if beq_bytes k k_flags then
              match one_string r with
              | POk x r' => actions_ ms (and_opt acc (QFlags x)) r'
              | PErr => SErr | PFuel => SFuel
              end
            else if beq_bytes k k_discard then actions_ ms (and_opt acc QDiscard) r
            else if beq_bytes k k_label then
              match strings f r with
              | POk l r' => match expand_all ms true l with Some (l', ms1) => actions_ ms1 (and_opt acc (QLabel l')) r' | None => SErr end
              | PErr => SErr | PFuel => SFuel
              end
            else if beq_bytes k k_pass then actions_ ms (and_opt acc QPass) r
            else if beq_bytes k k_reject then actions_ ms (and_opt acc QReject) r
            else if beq_bytes k k_exec then
              match exec_flags_then_strings f r with
              | POk (fs, fb, l) r' =>
                  match expand_all ms true l with
                  | Some (l', ms1) => if fb && negb fs then SErr (* invalid exec options *)
                                      else actions_ ms1 (and_opt acc (QExec fs fb l')) r'
                  | None => SErr
                  end
              | PErr => SErr | PFuel => SFuel
              end
            else if beq_bytes k k_attachment then
              match lex r with
              | POk (TChar 123) r' =>
                  match block_ ms r' with
                  | SOk b r'' ms1 => if validate_attachment_block b then actions_ ms1 (and_opt acc (QAttBlock b)) r'' else SErr
                  | x => x
                  end
              | PFuel => SFuel
              | _ => SErr
              end
            else if beq_bytes k k_addheader then
              match one_string r with
              | POk x r' => match one_string r' with
                            | POk y r'' => actions_ ms (and_opt acc (QAddHeader x y)) r''
                            | PErr => SErr | PFuel => SFuel
                            end
              | PErr => SErr | PFuel => SFuel
              end
            else done
        | PErr => SErr
        | PFuel => SFuel
        | POk _ _ => done
        end.
  End BlockBodies.

  Fixpoint block (fuel : nat) (ms : st) (s : bytes) {struct fuel} : sres cexpr :=
    (* after '{' : rules until '}' *)
    match fuel with O => SFuel | S f => rules f ms None s end
  with rules (fuel : nat) (ms : st) (acc : option cexpr) (s : bytes) {struct fuel} : sres cexpr :=
    match fuel with O => SFuel | S f => rules_body f (block f) (rules f) (actions f) ms acc s end
  with actions (fuel : nat) (ms : st) (acc : option cexpr) (s : bytes) {struct fuel} : sres cexpr :=
    match fuel with O => SFuel | S f => actions_body f (block f) (actions f) ms acc s end.

  Record config := mkconfig { c_paths : list bytes; c_expr : cexpr }.

  Definition has_stdin (cs : list config) : bool :=
    existsb (fun c => existsb (beq_bytes s_dev_stdin) (c_paths c)) cs.

  Definition maildir_checks (paths : list bytes) (b : cexpr) : bool :=
    negb (Nat.eqb (count_actions b) 0) &&
    (Nat.eqb (count_if is_reject b) 0 || forallb (beq_bytes s_dev_stdin) paths).

  Inductive tres := TOk (cs : list config) (ms : st) | TRej | TFuel.

  Definition of_pres {A} (r : pres A) : tres := match r with PFuel => TFuel | _ => TRej end.
  Definition of_sres {A} (r : sres A) : tres := match r with SFuel => TFuel | _ => TRej end.

  Fixpoint toplevel (fuel : nat) (ms : st) (cs : list config) (s : bytes) : tres :=
    match fuel with
    | O => TFuel
    | S f =>
        match lex s with
        | POk TEOF _ => TOk (rev cs) ms
        | POk (TWord w) r =>
            (* MACRO '=' STRING; the '=' must follow after white space only *)
            match skip_ws r with
            | 61 :: r1 =>
                match one_string r1 with
                | POk v r2 =>
                    match expand ms false v with
                    | Some (v', ms1) =>
                        if beq_bytes w s_path then TRej                        (* wrong context: "already defined" *)
                        else match mfind ms1 w with
                             | Some _ => TRej                                  (* macro already defined *)
                             | None => toplevel f (ms1 ++ [mkmacro w v' O]) cs r2
                             end
                    | None => TRej
                    end
                | x => of_pres x
                end
            | _ => TRej                                                          (* unknown keyword *)
            end
        | POk (TKw k) r =>
            if beq_bytes k k_maildir then
              match strings f r with
              | POk ps r1 =>
                  match expand_all ms false ps with
                  | Some (ps', ms1) =>
                      match lex r1 with
                      | POk (TChar 123) r2 =>
                          match block f ms1 r2 with
                          | SOk b r3 ms2 => if maildir_checks ps' b then toplevel f ms2 (mkconfig ps' b :: cs) r3 else TRej
                          | x => of_sres x
                          end
                      | x => of_pres x
                      end
                  | None => TRej
                  end
              | x => of_pres x
              end
            else if beq_bytes k k_stdin then
              if has_stdin cs then TRej                                         (* stdin already defined *)
              else match lex r with
                   | POk (TChar 123) r2 =>
                       match block f ms r2 with
                       | SOk b r3 ms2 => if maildir_checks [s_dev_stdin] b then toplevel f ms2 (mkconfig [s_dev_stdin] b :: cs) r3 else TRej
                       | x => of_sres x
                       end
                   | x => of_pres x
                   end
            else TRej
        | x => of_pres x
        end
    end.

  (* config_parse: Rejected = at least one diagnostic *)
  Inductive outcome := Accepted (cs : list config) | Rejected | OutOfFuel.

  Definition all_used (ms : st) : bool := forallb (fun m => negb (Nat.eqb (mc_refs m) 0)) ms.

  Definition parse_config (file : bytes) : outcome :=
    match toplevel (4 * length file + 16) [] [] file with
    | TOk cs ms => if all_used ms then Accepted cs else Rejected                  (* unused macro *)
    | TRej => Rejected
    | TFuel => OutOfFuel
    end.
End Parse.

Arguments SOk {A} a rest ms.
Arguments SErr {A}.
Arguments SFuel {A}.
