"""C16 - the transfer decoders are correct and total.
Tie: decode.h driver (plain + ASan/UBSan) vs the extracted Coq model, on exhaustive short
strings over the 14-symbol alphabet and on structured random strings.  Monitor: independent
reference decoders (below) written from the RFC wording, not from decode.c."""
import itertools, os, base64, binascii
import common
from common import hexs, unhexs

ALPHABET = b'AQg/+=?_ \n0Ffx'
QALPHABET = b'=_5F23Dfa '
WS = b' \t\n\v\f\r'
B64 = b'ABCDEFGHIJKLMNOPQRSTUVWXYZabcdefghijklmnopqrstuvwxyz0123456789+/'


# ---- reference decoders (monitor) ----------------------------------------------------------
def cview(b):
    i = b.find(b'\0')
    return b if i < 0 else b[:i]


def ref_b64(s):
    t = bytes(c for c in s if c not in WS)
    body = t.rstrip(b'=')
    pad = t[len(body):]
    if any(c not in B64 for c in body):
        return None
    if (len(body) % 4, pad) not in ((0, b''), (2, b'=='), (3, b'=')):
        return None
    # white space is allowed between / after the pads but nothing else after the first pad
    if pad:
        first = s.index(b'=')
        if any(c not in WS and c != 0x3d for c in s[first:]):
            return None
    vals = [B64.index(c) for c in body]
    bits = 0
    acc = 0
    out = bytearray()
    for v in vals:
        acc = (acc << 6) | v
        bits += 6
        if bits >= 8:
            bits -= 8
            out.append((acc >> bits) & 0xff)
    if acc & ((1 << bits) - 1):
        return None
    return bytes(out)


HEXU = b'0123456789ABCDEF'


def ref_qp(s, header=False):
    out = bytearray()
    i = 0
    n = len(s)
    while i < n:
        c = s[i]
        if header and c == 0x5f:
            out.append(0x20); i += 1
        elif c != 0x3d:
            out.append(c); i += 1
        elif i + 1 < n and s[i + 1] == 0x0a:
            i += 2
        elif i + 2 < n and s[i + 1] in HEXU and s[i + 2] in HEXU:
            out.append(HEXU.index(s[i + 1]) * 16 + HEXU.index(s[i + 2])); i += 3
        else:
            out.append(c); i += 1
    return bytes(out)


def ref_2047(s):
    out = bytearray()
    i = 0
    n = len(s)
    try:
        while i < n:
            if s[i:i + 2] == b'=?':
                j = s.index(b'?', i + 2)
                if j + 1 >= n:
                    return s
                enc = s[j + 1:j + 2].upper()
                if s[j + 2:j + 3] != b'?':
                    return s
                k = s.index(b'?=', j + 3)
                txt = s[j + 3:k]
                if enc == b'B':
                    d = ref_b64(txt)
                    if d is None:
                        return s
                    out += cview(d)
                elif enc == b'Q':
                    out += ref_qp(txt, True)
                else:
                    return s
                i = k + 2
                nxt = s.find(b'=?', i)
                if nxt >= 0 and all(c in WS for c in s[i:nxt]):
                    i = nxt
            else:
                out.append(s[i]); i += 1
    except ValueError:
        return s
    return bytes(out)


REF = {'b64': ref_b64, 'qp': lambda s: ref_qp(s, False), 'r2047': ref_2047}


def ref_line(fn, s):
    r = REF[fn](s)
    return 'N' if r is None else 'S ' + hexs(cview(r))


# ---- generators -------------------------------------------------------------------------
def exhaustive(maxlen):
    for n in range(maxlen + 1):
        for t in itertools.product(ALPHABET, repeat=n):
            yield bytes(t)


def rand_b64ish(rng):
    kind = rng.randrange(8)
    n = 3000 if rng.randrange(200) == 0 else rng.choice([0, 1, 2, 3, 4, 5, 6, 30, 57, 300])
    raw = bytes(rng.randrange(256) for _ in range(n))
    e = bytearray(base64.b64encode(raw))
    if kind == 1 and e:                      # white space anywhere
        for _ in range(rng.randrange(1, 6)):
            e.insert(rng.randrange(len(e) + 1), rng.choice(WS))
    elif kind == 2 and e:                    # drop / add pads
        e = bytearray(e.rstrip(b'=') + b'=' * rng.randrange(4))
    elif kind == 3 and e:                    # foreign character
        e[rng.randrange(len(e))] = rng.choice(b'-_.,*\x80\xff!')
    elif kind == 4 and e:                    # non-zero trailing bits
        b = e.rstrip(b'=')
        if len(b) % 4 in (2, 3):
            b = b[:-1] + bytes([B64[(B64.index(b[-1]) | rng.randrange(1, 4)) % 64]])
            e = bytearray(b + e[len(b):])
    elif kind == 5 and e:                    # truncate
        e = e[:rng.randrange(len(e))]
    elif kind == 6:                          # stuff after pad
        e += bytes(rng.choice(b' \n=Ax') for _ in range(rng.randrange(1, 4)))
    elif kind == 7:
        e = bytearray(rng.choice(ALPHABET + b'ABCD') for _ in range(rng.randrange(0, 40)))
    return bytes(b for b in e if b != 0)


def rand_qpish(rng):
    out = bytearray()
    for _ in range(800 if rng.randrange(100) == 0 else rng.choice([1, 3, 10, 60])):
        k = rng.randrange(10)
        if k < 4:
            out.append(rng.choice(b'abc XYZ_09\n\t'))
        elif k < 6:
            out += b'=%02X' % (rng.choice([0x5f, 0x20, 0x3d, 0x3f, 0x0a, 0x09]) if rng.randrange(3) == 0 else rng.randrange(256))
        elif k == 6:
            out += b'=\n'
        elif k == 7:
            out += b'=' + bytes(rng.choice(b'0aFfGg=\n ') for _ in range(rng.randrange(3)))
        elif k == 8:
            out += b'=%02x' % rng.randrange(256)
        else:
            out.append(rng.randrange(1, 256))
    if rng.randrange(4) == 0:
        out = out[:rng.randrange(len(out) + 1)]
    return bytes(b for b in out if b != 0)


def rand_2047ish(rng):
    out = bytearray()
    for _ in range(rng.choice([1, 2, 3, 5, 12])):
        k = rng.randrange(12)
        if k < 3:
            out += bytes(rng.choice(b'hello wor=?ld_\t\n') for _ in range(rng.randrange(8)))
        elif k < 6:
            cs = rng.choice([b'UTF-8', b'iso-8859-1', b'', b'x?y'])
            e = rng.choice([b'B', b'b', b'Q', b'q', b'X', b'', b'BB'])
            if e.upper() == b'B':
                txt = rand_b64ish(rng)[:60]
            else:
                txt = rand_qpish(rng)[:40]
            if rng.randrange(6) == 0:
                txt = txt.replace(b'?', b'')
            out += b'=?' + cs + b'?' + e + b'?' + txt + (b'?=' if rng.randrange(8) else b'')
        elif k < 8:
            out += bytes(rng.choice(b' \t\n') for _ in range(rng.randrange(4)))
        elif k == 8:
            out += b'=?'
        elif k == 9:
            out += b'?='
        else:
            out += bytes(rng.choice(ALPHABET) for _ in range(rng.randrange(6)))
    return bytes(b for b in out if b != 0)


def nontrivial(fn, s):
    """A case is non-trivial if it contains at least one complete quantum / escape / encoded word."""
    if fn == 'b64':
        return sum(1 for c in s if c in B64) >= 2
    if fn == 'qp':
        return b'=' in s
    return b'=?' in s


# ---- the check -----------------------------------------------------------------------------
def compare(ck, cases, drv, model, label, stats, asan=None):
    """cases: list of (fn, bytes).  Returns number of disagreements handled."""
    lines = ['%s %s' % (fn, hexs(s)) for fn, s in cases]
    impl, r = common.run_lines(drv, lines, timeout=3000)
    mod, _ = common.run_lines(model, lines, timeout=3000)
    if len(impl) != len(lines):
        ck.violation('decode.h driver died on the %s stream (exit %s): %s' % (label, r.returncode, r.stderr.decode(errors='replace')[-400:]),
                     {'stream': label, 'first_unanswered': lines[len(impl)] if len(impl) < len(lines) else None})
        return
    dis = 0
    for (fn, s), a, b in zip(cases, impl, mod):
        stats['evaluations'] += 1
        if nontrivial(fn, s):
            stats['nontrivial'].add((fn, s))
        if a != b:
            dis += 1
            if dis > 5:
                continue
            ref = ref_line(fn, s)
            if a != ref:
                ck.violation('%s(%r): implementation returns %s, RFC reference %s (model %s)' % (fn, s, a, ref, b),
                             {'function': fn, 'input_hex': hexs(s), 'impl': a, 'reference': ref, 'model': b})
            else:
                ck.violation('correspondence broken: %s(%r): implementation %s, model %s (implementation agrees with the reference decoder)' % (fn, s, a, b),
                             {'function': fn, 'input_hex': hexs(s), 'impl': a, 'reference': ref, 'model': b,
                              'obligation': 'correspondence DecodeDefs.%s' % fn}, found_input=False)
    stats['disagreements'] += dis


def asan_run(ck, cases, stats):
    drv = common.build_driver('decode_drv', 'asan')
    lines = ['%s %s' % (fn, hexs(s)) for fn, s in cases]
    out, r = common.run_lines(drv, lines, timeout=3000,
                              env={'ASAN_OPTIONS': 'detect_leaks=0:abort_on_error=0', 'UBSAN_OPTIONS': 'print_stacktrace=1'})
    stats['asan_cases'] += len(out)
    if r.returncode != 0 or len(out) != len(lines):
        bad = lines[len(out)] if len(out) < len(lines) else '?'
        ck.violation('sanitizer report / abnormal exit %s in the decoders on input %s: %s' %
                     (r.returncode, bad, r.stderr.decode(errors='replace')[:600]),
                     {'stream': 'asan', 'request': bad, 'stderr': r.stderr.decode(errors='replace')[:3000]})


def run(ck):
    model = common.model_exe()
    drv = common.build_driver('decode_drv', 'plain')
    stats = {'evaluations': 0, 'nontrivial': set(), 'disagreements': 0, 'asan_cases': 0}
    # corpus first
    corpus = []
    cp = os.path.join(common.VERIF, 'corpus', 'c16.txt')
    if os.path.exists(cp):
        for line in open(cp):
            p = line.split()
            if len(p) == 2:
                corpus.append((p[0], unhexs(p[1])))
    if corpus:
        compare(ck, corpus, drv, model, 'corpus', stats)
    maxlen = 4 if ck.tier == 'quick' else 6
    ex = []
    for s in exhaustive(maxlen):
        for fn in ('b64', 'qp', 'r2047'):
            ex.append((fn, s))
            if len(ex) >= 600000:
                compare(ck, ex, drv, model, 'exhaustive<=%d' % maxlen, stats)
                ex = []
    if ex:
        compare(ck, ex, drv, model, 'exhaustive<=%d' % maxlen, stats)
    # the payload of a Q / B encoded word, exhaustively: every string of length <= maxlen over escapes of the
    # characters that are special inside encoded words ('_' 5F, ' ' 20, '=' 3D, '?' 3F), '_', hex digits in both cases
    ew = []
    for n in range(maxlen + 1):
        for t in itertools.product(QALPHABET, repeat=n):
            ew.append(('r2047', b'=?x?Q?' + bytes(t) + b'?='))
            if n <= maxlen - 1:
                ew.append(('r2047', b'a =?x?q?' + bytes(t) + b'?= =?x?Q?' + bytes(t[:2]) + b'?= b'))
    # B encoded words: every payload of length <= maxlen over base64-relevant characters, as the first and as a later word
    for n in range(maxlen + 1):
        for t in itertools.product(b'QUA=/ x', repeat=n):
            ew.append(('r2047', b'=?x?B?' + bytes(t) + b'?='))
            if n <= 2:
                ew.append(('r2047', b'=?x?b?QQ==?= =?x?B?' + bytes(t) + b'?= t'))
    compare(ck, ew, drv, model, 'exhaustive encoded-word payloads<=%d' % maxlen, stats)
    # encoded words of every payload length up to 300 (and a few much longer ones): no length is special - RFC 2047's 75-character
    # limit binds the writer, a reader decodes what it gets -, with B payloads that are whole quanta, padded, and malformed
    lw = []
    import base64 as _b64
    for n in list(range(0, 301)) + [1000, 4000, 9000]:
        raw = bytes((i * 7 + n) % 95 + 32 for i in range(n))
        enc = _b64.b64encode(raw)
        lw.append(('r2047', b'=?UTF-8?B?' + enc + b'?='))
        lw.append(('r2047', b'x =?utf-8?b?' + enc + b'?= =?utf-8?B?' + enc[:8] + b'?= y'))
        lw.append(('r2047', b'=?x?B?' + (b'QUJD' * n)[:n] + b'?='))
        lw.append(('r2047', b'=?x?Q?' + (b'a=41_b' * n)[:n] + b'?='))
        lw.append(('r2047', b'=?' + b'c' * n + b'?q?' + b'=5F' * (n % 7) + b'?= =?x?b?' + enc[:n - n % 4] + b'?='))
    compare(ck, lw, drv, model, 'encoded words of every length up to 300', stats)
    # the decoders keep no memory of earlier inputs: large inputs (bodies of 3 - 70 KiB) in the middle of a sequence decoded by ONE process,
    # small ones after them.  Judged against the reference decoder only (the extracted model is quadratic on inputs of this size).
    big = []
    for nbytes in (3000, 49000, 49152, 70000):
        raw = bytes((i * 13 + nbytes) % 251 for i in range(nbytes))
        big.append(('b64', _b64.encodebytes(raw)))
        big += [('b64', b'Zm9v'), ('b64', b'Zh=='), ('r2047', b'Re: =?UTF-8?B?Zm9v?= =?UTF-8?Q?bar?='), ('qp', b'a=3Db=\nc')]
        big.append(('qp', b''.join(b'=%02X' % (c % 256) if c % 5 else b'x' for c in range(nbytes // 3))))
        big += [('qp', b'caf=C3=A9'), ('b64', b'QUJD\nREVG'), ('r2047', b'=?x?q?a=5Fb?= =?x?B?QUJD?=')]
    blines = ['%s %s' % (fn, hexs(x)) for fn, x in big]
    bimpl, br = common.run_lines(drv, blines, timeout=600)
    if len(bimpl) != len(blines):
        ck.violation('decode.h driver died on the large-input sequence (exit %s)' % br.returncode, {'stream': 'large-then-small'})
    else:
        for idx, ((fn, x), a_) in enumerate(zip(big, bimpl)):
            stats['evaluations'] += 1
            ref = ref_line(fn, x)
            if a_ != ref:
                ck.violation('%s on input %d of a sequence decoded by one process (%d bytes, after larger inputs): implementation returns %s..., RFC reference %s...'
                             % (fn, idx, len(x), a_[:60], ref[:60]), {'function': fn, 'sequence_index': idx, 'stream': 'large-then-small', 'input_len': len(x)})
                break
    nrand = 4000 if ck.tier == 'quick' else 200000
    rnd = []
    for i in range(nrand):
        rnd.append(('b64', rand_b64ish(ck.rng)))
        rnd.append(('qp', rand_qpish(ck.rng)))
        rnd.append(('r2047', rand_2047ish(ck.rng)))
    compare(ck, rnd, drv, model, 'random', stats)
    # sanitizer build: exhaustive <= 3 plus the random stream (testing, not proof)
    small = [(fn, s) for s in exhaustive(3) for fn in ('b64', 'qp', 'r2047')]
    asan_run(ck, small + rnd[:30000] + corpus, stats)
    lens = [len(s) for _, s in rnd]
    ck.coverage.update({
        'evaluations': stats['evaluations'],
        'distinct_nontrivial': len(stats['nontrivial']),
        'rule': 'all strings of length <= %d over the alphabet %r for each of the 3 decoders (exhaustive), every Q encoded word whose payload is a string of that length over "=_5F23Dfa " and every B encoded word over "QUA=/ x" (alone and next to a second word), encoded words of every payload length 0-300 and 1000 / 4000 / 9000 (B whole quanta, B cut anywhere, Q, long charset), base64 / quoted-printable inputs of 3-70 KiB each followed by small inputs in the same process, '
                'plus %d structured random strings per decoder (valid quanta, padding variants, foreign characters, '
                'truncations, encoded-word fragments); non-trivial = contains >= 2 alphabet characters (b64), an "=" (qp), '
                'an "=?" (rfc2047); distinct = distinct (decoder, input) pairs' % (maxlen, ALPHABET.decode(), nrand),
        'exhaustive': True,
        'samples': [{'fn': fn, 'input': repr(s[:80])} for fn, s in (rnd[:6] + small[5000:5003])],
        'traces_validated_against_impl': stats['evaluations'],
        'disagreements_checked': stats['disagreements'],
        'sanitizer_cases': stats['asan_cases'],
        'random_length_histogram': {'<=8': sum(1 for l in lens if l <= 8), '<=64': sum(1 for l in lens if 8 < l <= 64),
                                    '<=512': sum(1 for l in lens if 64 < l <= 512), '>512': sum(1 for l in lens if l > 512)},
    })
    ck.assumptions += ['ctype as in the C / C.utf8 locales', 'observable is the returned C string (cview of the decoded bytes)',
                       'sanitizer runs are tests, not proofs']


def replay(ck, rp):
    drv = common.build_driver('decode_drv', 'plain')
    fn, s = rp['function'], unhexs(rp['input_hex'])
    out, _ = common.run_lines(drv, ['%s %s' % (fn, hexs(s))])
    ref = ref_line(fn, s)
    print('input %r: implementation %s, reference %s' % (s, out[0] if out else '?', ref))
    return 0 if out and out[0] == ref else 1
