(* Flags: parse / set / clear / string round trip; generated names: candidates are distinct, the
   retry loop returns a name that did not exist. *)
From MD Require Import Bytes Generated NamesDefs.
From Coq Require Import ZifyBool ZifyN ZifyNat.
Local Open Scope N_scope.

(* ---- strflags ------------------------------------------------------------------------------------ *)
Fixpoint nseq (start : N) (len : nat) : list N :=
  match len with O => [] | S l => start :: nseq (start + 1) l end.

Lemma strflags_loop_spec : forall fuel flags bit,
  flags < 2 ^ N.of_nat fuel ->
  strflags_loop fuel flags bit =
  map (fun i => bit + i) (filter (N.testbit flags) (nseq 0 fuel)).
Proof.
  induction fuel as [|f IH]; intros flags bit Hlt.
  - reflexivity.
  - cbn [strflags_loop]. destruct (flags =? 0) eqn:E0.
    + apply N.eqb_eq in E0. subst flags.
      assert (H : forall l, filter (N.testbit 0) l = []).
      { induction l as [|x l IHl]; [reflexivity|]. cbn [filter]. rewrite N.bits_0. exact IHl. }
      rewrite H. reflexivity.
    + cbn [nseq filter]. rewrite N.bit0_odd.
      assert (Hd : N.div2 flags < 2 ^ N.of_nat f).
      { rewrite N.div2_div. apply N.div_lt_upper_bound; [lia|].
        replace (N.of_nat (S f)) with (N.succ (N.of_nat f)) in Hlt by lia. rewrite N.pow_succ_r' in Hlt. lia. }
      rewrite (IH (N.div2 flags) (bit + 1) Hd).
      assert (Hs : forall l start, filter (N.testbit flags) (nseq (start + 1) l)
                    = map N.succ (filter (N.testbit (N.div2 flags)) (nseq start l))).
      { induction l as [|l' IHl]; intros start; [reflexivity|]. cbn [nseq filter].
        rewrite <- (N.testbit_succ_r_div2 flags start) by lia. replace (N.succ start) with (start + 1) by lia.
        destruct (N.testbit flags (start + 1)); cbn [map]; rewrite IHl; [f_equal; lia | reflexivity]. }
      rewrite (Hs f 0).
      destruct (N.odd flags); cbn [map app]; rewrite map_map.
      * f_equal; [lia|]. apply map_ext. intros; lia.
      * apply map_ext. intros; lia.
Qed.

(* ---- well-formed flag sets: only the 26 low bits may be set ------------------------------------------ *)
Definition wf_flags (mf : mflags) : Prop := mf_upper mf < 2 ^ 26 /\ mf_lower mf < 2 ^ 26.

Lemma bits_high_lt x : (forall n, 26 <= n -> N.testbit x n = false) -> x < 2 ^ 26.
Proof.
  intros H. destruct (N.eq_dec x 0) as [->|Hnz]; [reflexivity|].
  apply N.log2_lt_pow2; [lia|].
  destruct (N.lt_ge_cases (N.log2 x) 26) as [Hl|Hl]; [exact Hl|]. exfalso.
  pose proof (N.bit_log2 x Hnz) as Hb. rewrite (H _ Hl) in Hb. discriminate.
Qed.

Lemma lt_bits_high x n : x < 2 ^ 26 -> 26 <= n -> N.testbit x n = false.
Proof.
  intros Hx Hn. destruct (N.eq_dec x 0) as [->|Hnz]; [apply N.bits_0|].
  apply N.bits_above_log2. apply N.log2_lt_pow2 in Hx; lia.
Qed.

Lemma setbit_lt a i : a < 2 ^ 26 -> i < 26 -> N.setbit a i < 2 ^ 26.
Proof.
  intros Ha Hi. apply bits_high_lt. intros n Hn. rewrite N.setbit_eqb.
  rewrite (lt_bits_high a n Ha Hn). assert ((i =? n) = false) as -> by lia. reflexivity.
Qed.

Lemma clearbit_lt a i : a < 2 ^ 26 -> N.clearbit a i < 2 ^ 26.
Proof.
  intros Ha. apply bits_high_lt. intros n Hn. rewrite N.clearbit_eqb.
  rewrite (lt_bits_high a n Ha Hn). reflexivity.
Qed.

Lemma flags_set_wf mf c mf' : wf_flags mf -> flags_set mf c = Some mf' -> wf_flags mf'.
Proof.
  unfold wf_flags, flags_set. intros [Hu Hl].
  destruct (isupper c) eqn:Eu.
  - intros [= <-]. cbn. split; [|exact Hl]. apply setbit_lt; [exact Hu|]. unfold isupper in Eu. lia.
  - destruct (islower c) eqn:El; [|discriminate]. intros [= <-]. cbn. split; [exact Hu|].
    apply setbit_lt; [exact Hl|]. unfold islower in El. lia.
Qed.

Lemma flags_clr_wf mf c mf' : wf_flags mf -> flags_clr mf c = Some mf' -> wf_flags mf'.
Proof.
  unfold wf_flags, flags_clr. intros [Hu Hl].
  destruct (isupper c); [|destruct (islower c); [|discriminate]]; intros [= <-]; cbn; split; auto;
    apply clearbit_lt; assumption.
Qed.

Lemma flags_set_all_wf : forall s mf mf', wf_flags mf -> flags_set_all mf s = Some mf' -> wf_flags mf'.
Proof.
  induction s as [|c r IH]; intros mf mf' Hw; cbn [flags_set_all]; [intros [= <-]; exact Hw|].
  destruct (flags_set mf c) as [m1|] eqn:E; [|discriminate]. apply IH. eapply flags_set_wf; eauto.
Qed.

(* ---- membership ------------------------------------------------------------------------------------ *)
Definition isletter (c : N) : bool := isupper c || islower c.

Lemma flags_isset_set mf c mf' d : flags_set mf c = Some mf' -> isletter d = true ->
  flags_isset mf' d = (d =? c) || flags_isset mf d.
Proof.
  unfold flags_set, flags_isset, isletter. intros H Hd.
  destruct (isupper c) eqn:Euc.
  - inversion H; subst; clear H. cbn [mf_upper mf_lower].
    destruct (isupper d) eqn:Eud.
    + rewrite N.setbit_eqb. unfold isupper in *. destruct (d =? c) eqn:E; [|].
      * assert ((c - 65 =? d - 65) = true) as -> by lia. reflexivity.
      * assert ((c - 65 =? d - 65) = false) as -> by lia. reflexivity.
    + destruct (islower d) eqn:Eld; [|discriminate].
      assert ((d =? c) = false) as -> by (unfold isupper, islower in *; lia). reflexivity.
  - destruct (islower c) eqn:Elc; [|discriminate]. inversion H; subst; clear H. cbn [mf_upper mf_lower].
    destruct (isupper d) eqn:Eud.
    + assert ((d =? c) = false) as -> by (unfold isupper, islower in *; lia). reflexivity.
    + destruct (islower d) eqn:Eld; [|discriminate]. rewrite N.setbit_eqb. unfold islower in *.
      destruct (d =? c) eqn:E.
      * assert ((c - 97 =? d - 97) = true) as -> by lia. reflexivity.
      * assert ((c - 97 =? d - 97) = false) as -> by lia. reflexivity.
Qed.

Lemma flags_isset_clr mf c mf' d : flags_clr mf c = Some mf' -> isletter d = true ->
  flags_isset mf' d = negb (d =? c) && flags_isset mf d.
Proof.
  unfold flags_clr, flags_isset, isletter. intros H Hd.
  destruct (isupper c) eqn:Euc.
  - inversion H; subst; clear H. cbn [mf_upper mf_lower].
    destruct (isupper d) eqn:Eud.
    + rewrite N.clearbit_eqb. unfold isupper in *. destruct (d =? c) eqn:E.
      * assert ((c - 65 =? d - 65) = true) as -> by lia. rewrite andb_false_r. reflexivity.
      * assert ((c - 65 =? d - 65) = false) as -> by lia. rewrite andb_true_r. reflexivity.
    + destruct (islower d) eqn:Eld; [|discriminate].
      assert ((d =? c) = false) as -> by (unfold isupper, islower in *; lia). reflexivity.
  - destruct (islower c) eqn:Elc; [|discriminate]. inversion H; subst; clear H. cbn [mf_upper mf_lower].
    destruct (isupper d) eqn:Eud.
    + assert ((d =? c) = false) as -> by (unfold isupper, islower in *; lia). reflexivity.
    + destruct (islower d) eqn:Eld; [|discriminate]. rewrite N.clearbit_eqb. unfold islower in *.
      destruct (d =? c) eqn:E.
      * assert ((c - 97 =? d - 97) = true) as -> by lia. rewrite andb_false_r. reflexivity.
      * assert ((c - 97 =? d - 97) = false) as -> by lia. rewrite andb_true_r. reflexivity.
Qed.

Lemma flags_isset_set_all : forall s mf mf' d, flags_set_all mf s = Some mf' -> isletter d = true ->
  flags_isset mf' d = existsb (N.eqb d) s || flags_isset mf d.
Proof.
  induction s as [|c r IH]; intros mf mf' d; cbn [flags_set_all existsb].
  - intros [= <-] _. reflexivity.
  - destruct (flags_set mf c) as [m1|] eqn:E; [|discriminate]. intros H Hd.
    rewrite (IH m1 mf' d H Hd). rewrite (flags_isset_set mf c m1 d E Hd).
    destruct (d =? c), (existsb (N.eqb d) r), (flags_isset mf d); reflexivity.
Qed.

Lemma flags_set_all_letters : forall s mf mf', flags_set_all mf s = Some mf' -> forallb isletter s = true.
Proof.
  induction s as [|c r IH]; intros mf mf'; cbn [flags_set_all forallb]; [reflexivity|].
  destruct (flags_set mf c) as [m1|] eqn:E; [|discriminate]. intros H. rewrite (IH m1 mf' H), andb_true_r.
  unfold flags_set in E. unfold isletter. destruct (isupper c); [reflexivity|]. destruct (islower c); [reflexivity|discriminate].
Qed.

(* ---- the string form: ":2," then the set letters in ASCII order, each once --------------------------- *)
Definition alphabet52 : list N := nseq 65 26 ++ nseq 97 26.

Lemma nseq_map start len : nseq start len = map (fun i => start + i) (nseq 0 len).
Proof.
  revert start; induction len as [|l IH]; intros start; [reflexivity|]. cbn [nseq map].
  f_equal; [lia|]. rewrite (IH (start + 1)), (IH (0 + 1)), map_map. apply map_ext. intros; lia.
Qed.

Lemma filter_testbit_high a : a < 2 ^ 26 ->
  filter (N.testbit a) (nseq 0 32) = filter (N.testbit a) (nseq 0 26).
Proof.
  intros Ha.
  assert (Hh : forall i, 26 <= i -> N.testbit a i = false).
  { intros i Hi. destruct (N.eq_dec a 0) as [->|Hnz]; [apply N.bits_0|].
    apply N.bits_above_log2. apply N.log2_lt_pow2 in Ha; lia. }
  change (nseq 0 32) with (nseq 0 26 ++ [26; 27; 28; 29; 30; 31]). rewrite filter_app.
  cbn [filter]. rewrite !Hh by lia. apply app_nil_r.
Qed.

Lemma nseq_lt start len : Forall (fun i => i < start + N.of_nat len) (nseq start len).
Proof.
  revert start; induction len as [|l IH]; intros start; cbn [nseq]; constructor;
    [rewrite Nat2N.inj_succ; lia|].
  apply Forall_impl with (P := fun i => i < (start + 1) + N.of_nat l);
    [intros a Ha; rewrite Nat2N.inj_succ; lia | apply IH].
Qed.

Lemma map_filter_upper mf l : Forall (fun i => i < 26) l ->
  map (fun i => 65 + i) (filter (N.testbit (mf_upper mf)) l) = filter (flags_isset mf) (map (fun i => 65 + i) l).
Proof.
  induction 1 as [|i l Hi _ IH]; [reflexivity|]. cbn [filter map].
  assert (flags_isset mf (65 + i) = N.testbit (mf_upper mf) i) as ->.
  { unfold flags_isset. assert (isupper (65 + i) = true) as -> by (unfold isupper; lia). f_equal. lia. }
  destruct (N.testbit (mf_upper mf) i); cbn [map]; rewrite IH; reflexivity.
Qed.

Lemma map_filter_lower mf l : Forall (fun i => i < 26) l ->
  map (fun i => 97 + i) (filter (N.testbit (mf_lower mf)) l) = filter (flags_isset mf) (map (fun i => 97 + i) l).
Proof.
  induction 1 as [|i l Hi _ IH]; [reflexivity|]. cbn [filter map].
  assert (flags_isset mf (97 + i) = N.testbit (mf_lower mf) i) as ->.
  { unfold flags_isset. assert (isupper (97 + i) = false) as -> by (unfold isupper; lia).
    assert (islower (97 + i) = true) as -> by (unfold islower; lia). f_equal. lia. }
  destruct (N.testbit (mf_lower mf) i); cbn [map]; rewrite IH; reflexivity.
Qed.

Lemma filter_length_le {A} (f : A -> bool) l : (length (filter f l) <= length l)%nat.
Proof. induction l as [|x l IH]; simpl; [lia|]. destruct (f x); simpl; lia. Qed.

Theorem flags_str_spec mf : wf_flags mf ->
  flags_str mf flags_max = Some ([58; 50; 44] ++ filter (flags_isset mf) alphabet52).
Proof.
  intros [Hu Hl]. unfold flags_str, strflags.
  rewrite !strflags_loop_spec by (change (2 ^ N.of_nat 32) with (2 ^ 32); eapply N.lt_trans; [eassumption | reflexivity]).
  rewrite !filter_testbit_high by assumption.
  rewrite map_filter_upper by (apply (nseq_lt 0 26)).
  rewrite map_filter_lower by (apply (nseq_lt 0 26)).
  rewrite <- (nseq_map 65 26), <- (nseq_map 97 26), <- filter_app. fold alphabet52.
  assert (Hlen : Nat.lt (length ([58; 50; 44] ++ filter (flags_isset mf) alphabet52)) flags_max).
  { rewrite app_length. pose proof (filter_length_le (flags_isset mf) alphabet52) as H.
    change (length alphabet52) with 52%nat in H. cbn [length]. unfold flags_max. lia. }
  apply Nat.ltb_lt in Hlen. rewrite Hlen. reflexivity.
Qed.

(* Round trip: the flags written for a file name are the letters after its last ":2,", in ASCII
   order and without duplicates. *)
Theorem flags_roundtrip path letters mf :
  after_last_colon path = Some (50 :: 44 :: letters) -> flags_parse path = Some mf ->
  flags_str mf flags_max = Some ([58; 50; 44] ++ filter (fun c => existsb (N.eqb c) letters) alphabet52).
Proof.
  unfold flags_parse. intros -> Hp.
  assert (Hw : wf_flags mf).
  { eapply flags_set_all_wf; [|exact Hp]. split; reflexivity. }
  rewrite (flags_str_spec mf Hw). f_equal. f_equal.
  apply filter_ext_in. intros c Hc.
  rewrite (flags_isset_set_all letters flags_empty mf c Hp).
  - unfold flags_isset, flags_empty. cbn [mf_upper mf_lower]. rewrite !N.bits_0.
    destruct (isupper c), (islower c); rewrite orb_false_r; reflexivity.
  - assert (G : forallb isletter alphabet52 = true) by (vm_compute; reflexivity).
    rewrite forallb_forall in G. apply G. exact Hc.
Qed.

(* absent suffix = empty set; any other suffix after the last colon, or a non-letter, is an error *)
Theorem flags_parse_no_colon path : after_last_colon path = None -> flags_parse path = Some flags_empty.
Proof. unfold flags_parse. intros ->. reflexivity. Qed.

Lemma suffix_shape {A} (F : bytes -> option A) t r :
  match t with 50 :: 44 :: letters => F letters | _ => None end = Some r ->
  exists letters, t = 50 :: 44 :: letters /\ F letters = Some r.
Proof.
  destruct t as [|c1 t1]; [discriminate|].
  destruct c1 as [|p]; [discriminate|].
  repeat match goal with p : positive |- _ => destruct p; try discriminate end.
  destruct t1 as [|c2 t2]; [discriminate|].
  destruct c2 as [|q]; [discriminate|].
  repeat match goal with p : positive |- _ => destruct p; try discriminate end.
  intros H. exists t2. split; [reflexivity | exact H].
Qed.

Theorem flags_parse_error path mf :
  flags_parse path = Some mf ->
  after_last_colon path = None \/
  exists letters, after_last_colon path = Some (50 :: 44 :: letters) /\ forallb isletter letters = true.
Proof.
  unfold flags_parse. destruct (after_last_colon path) as [t|]; [|left; reflexivity].
  intros H. apply suffix_shape in H as (letters & -> & H). right. exists letters. split; [reflexivity|].
  eapply flags_set_all_letters; eauto.
Qed.

(* the S transition: new -> cur sets S, cur -> new clears it, every other flag is preserved *)
Theorem msgflags_spec src dst mf : wf_flags mf ->
  msgflags src dst mf =
  Some ([58; 50; 44] ++ filter (fun c => match src, dst with
                                         | SubNew, SubCur => (c =? 83) || flags_isset mf c
                                         | SubCur, SubNew => negb (c =? 83) && flags_isset mf c
                                         | _, _ => flags_isset mf c
                                         end) alphabet52).
Proof.
  intros Hw. unfold msgflags.
  assert (HL : forall c, In c alphabet52 -> isletter c = true).
  { assert (G : forallb isletter alphabet52 = true) by (vm_compute; reflexivity).
    rewrite forallb_forall in G. exact G. }
  destruct src, dst.
  - rewrite flags_str_spec by exact Hw. reflexivity.
  - destruct (flags_set mf 83) as [m|] eqn:E; [|vm_compute in E; discriminate].
    rewrite flags_str_spec by (eapply flags_set_wf; eauto). f_equal. f_equal.
    apply filter_ext_in. intros c Hc. apply (flags_isset_set mf 83 m c E). auto.
  - destruct (flags_clr mf 83) as [m|] eqn:E; [|vm_compute in E; discriminate].
    rewrite flags_str_spec by (eapply flags_clr_wf; eauto). f_equal. f_equal.
    apply filter_ext_in. intros c Hc. apply (flags_isset_clr mf 83 m c E). auto.
  - rewrite flags_str_spec by exact Hw. reflexivity.
Qed.
