/* decode.h driver: b64 / qp / r2047 <hex> -> "S <hex>" or "N" */
#include "config.h"
#include "decode.h"
#include "hex.h"

int main(void) {
	char *line = NULL;
	size_t cap = 0;
	while (getline(&line, &cap, stdin) > 0) {
		char *tok[4];
		int n = split(line, tok, 4);
		char *in, *out = NULL;
		if (n < 2) { puts(""); continue; }
		in = unhex(tok[1], NULL);
		if (strcmp(tok[0], "b64") == 0) out = base64_decode(in);
		else if (strcmp(tok[0], "qp") == 0) out = quoted_printable_decode(in);
		else if (strcmp(tok[0], "r2047") == 0) out = rfc2047_decode(in);
		else { puts("ERR"); free(in); continue; }
		if (out == NULL) puts("N");
		else { fputs("S ", stdout); puthexstr(out); putchar('\n'); }
		free(out);
		free(in);
	}
	free(line);
	return 0;
}
