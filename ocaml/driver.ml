(* Line-protocol driver around the extracted model.  One request per line:
     <cmd> <hexarg> ...        ("-" is the empty string)
   One response line per request. *)
open Mdmodel

let rec pos_of_int n = if n = 1 then XH else if n land 1 = 0 then XO (pos_of_int (n lsr 1)) else XI (pos_of_int (n lsr 1))
let n_of_int n = if n = 0 then N0 else Npos (pos_of_int n)
let rec int_of_pos = function XH -> 1 | XO p -> 2 * int_of_pos p | XI p -> 2 * int_of_pos p + 1
let int_of_n = function N0 -> 0 | Npos p -> int_of_pos p
let rec nat_of_int n = if n <= 0 then O else S (nat_of_int (n - 1))
let rec int_of_nat = function O -> 0 | S n -> 1 + int_of_nat n

let z_of_int n = if n = 0 then Z0 else if n > 0 then Zpos (pos_of_int n) else Zneg (pos_of_int (-n))
let int_of_z = function Z0 -> 0 | Zpos p -> int_of_pos p | Zneg p -> - (int_of_pos p)

let unhex s =
  if s = "-" then [] else begin
    let n = String.length s / 2 in
    let rec go i acc = if i < 0 then acc else go (i - 1) (n_of_int (int_of_string ("0x" ^ String.sub s (2 * i) 2)) :: acc) in
    go (n - 1) [] end
let hex l =
  if l = [] then "-" else begin
    let b = Buffer.create 64 in
    List.iter (fun x -> Buffer.add_string b (Printf.sprintf "%02x" ((int_of_n x) land 255))) l;
    Buffer.contents b end

(* ---- I/O model tokens -------------------------------------------------------------------- *)
let name_of_string = function "S" -> Src | "D" -> Dst | "N" -> New | s -> failwith ("name " ^ s)
let string_of_name = function Src -> "S" | Dst -> "D" | New -> "N"
let outcome_of_char = function 'O' -> Ok | 'F' -> Fail | 'X' -> Exdev | c -> failwith "outcome"
let char_of_outcome = function Ok -> "O" | Fail -> "F" | Exdev -> "X"
let string_of_op = function
  | Opendir -> "Opendir" | Stat n -> "Stat." ^ string_of_name n | Creat n -> "Creat." ^ string_of_name n
  | Rename (a, b) -> "Rename." ^ string_of_name a ^ "." ^ string_of_name b
  | Dup -> "Dup" | Fdopen -> "Fdopen"
  | Write (n, v) -> "Write." ^ string_of_name n ^ "." ^ string_of_int (int_of_nat v)
  | Flush (n, v) -> "Flush." ^ string_of_name n ^ "." ^ string_of_int (int_of_nat v)
  | Fsync n -> "Fsync." ^ string_of_name n | Fclose n -> "Fclose." ^ string_of_name n
  | Close n -> "Close." ^ string_of_name n | Unlink n -> "Unlink." ^ string_of_name n
  | Utimens n -> "Utimens." ^ string_of_name n | OpenR n -> "OpenR." ^ string_of_name n
let op_of_string s =
  match String.split_on_char '.' s with
  | ["Opendir"] -> Opendir | ["Dup"] -> Dup | ["Fdopen"] -> Fdopen
  | ["Stat"; n] -> Stat (name_of_string n) | ["Creat"; n] -> Creat (name_of_string n)
  | ["Rename"; a; b] -> Rename (name_of_string a, name_of_string b)
  | ["Write"; n; v] -> Write (name_of_string n, nat_of_int (int_of_string v))
  | ["Flush"; n; v] -> Flush (name_of_string n, nat_of_int (int_of_string v))
  | ["Fsync"; n] -> Fsync (name_of_string n) | ["Fclose"; n] -> Fclose (name_of_string n)
  | ["Close"; n] -> Close (name_of_string n) | ["Unlink"; n] -> Unlink (name_of_string n)
  | ["Utimens"; n] -> Utimens (name_of_string n) | ["OpenR"; n] -> OpenR (name_of_string n)
  | _ -> failwith ("op " ^ s)
let action_of_string = function
  | "move" -> AMove false | "moves" -> AMove true | "movex" -> AMoveX false | "movexs" -> AMoveX true
  | "write" -> AWrite | "discard" -> ADiscard | s -> failwith ("action " ^ s)
let show_file w n =
  match file_at w n with
  | None -> "a"
  | Some f -> (match f.f_data with Empty -> "e" | Partial -> "p" | Complete v -> "c" ^ string_of_int (int_of_nat v))
              ^ (if f.f_durable then "d" else "") ^ "m" ^ string_of_int (int_of_nat f.f_mtime)

(* ---- rule trees:  cond ::= a<i> | p<i> | T | &(c,c) | |(c,c) | !(c)
                     acts ::= tok{,tok}   tok ::= mA mB fn fc g<n> l<n> h<n> x<n> D J P B
                     rule ::= R[cond;acts] | K[cond;rule...]                                   ---- *)
let parse_rules (s : string) : rule list =
  let pos = ref 0 in
  let peek () = if !pos < String.length s then s.[!pos] else '\000' in
  let adv () = incr pos in
  let expect c = if peek () = c then adv () else failwith (Printf.sprintf "expected %c at %d" c !pos) in
  let num () = let st = !pos in while (match peek () with '0'..'9' -> true | _ -> false) do adv () done;
    nat_of_int (int_of_string (String.sub s st (!pos - st))) in
  let rec cond () =
    match peek () with
    | 'a' -> adv (); CAtom (num ())
    | 'p' -> adv (); CPlain (num ())
    | 'T' -> adv (); CAll
    | '&' -> adv (); expect '('; let l = cond () in expect ','; let r = cond () in expect ')'; CAnd (l, r)
    | '|' -> adv (); expect '('; let l = cond () in expect ','; let r = cond () in expect ')'; COr (l, r)
    | '!' -> adv (); expect '('; let c = cond () in expect ')'; CNeg c
    | c -> failwith (Printf.sprintf "cond %c at %d" c !pos) in
  let act () =
    match peek () with
    | 'm' -> adv (); let c = peek () in adv (); XMove (nat_of_int (Char.code c - Char.code 'A'))
    | 'f' -> adv (); let c = peek () in adv (); XFlag (c = 'c')
    | 'g' -> adv (); XFlags (num ())
    | 'l' -> adv (); XLabel (num ())
    | 'h' -> adv (); XAddHeader (num ())
    | 'x' -> adv (); XExec (num ())
    | 'D' -> adv (); XDiscard | 'J' -> adv (); XReject | 'P' -> adv (); XPass | 'B' -> adv (); XBreak
    | c -> failwith (Printf.sprintf "act %c at %d" c !pos) in
  let rec rule () =
    match peek () with
    | 'R' -> adv (); expect '['; let c = cond () in expect ';';
        let acts = ref [act ()] in
        while peek () = ',' do adv (); acts := act () :: !acts done;
        expect ']'; RActs (c, List.rev !acts)
    | 'K' -> adv (); expect '['; let c = cond () in expect ';';
        let rs = ref [] in
        while peek () <> ']' do rs := rule () :: !rs done;
        expect ']'; RBlock (c, List.rev !rs)
    | c -> failwith (Printf.sprintf "rule %c at %d" c !pos) in
  let rs = ref [] in
  while !pos < String.length s do rs := rule () :: !rs done;
  List.rev !rs

let show_act = function
  | XMove m -> "m" ^ String.make 1 (Char.chr (Char.code 'A' + int_of_nat m))
  | XFlag c -> if c then "fc" else "fn"
  | XFlags n -> "g" ^ string_of_int (int_of_nat n) | XLabel n -> "l" ^ string_of_int (int_of_nat n)
  | XAddHeader n -> "h" ^ string_of_int (int_of_nat n) | XExec n -> "x" ^ string_of_int (int_of_nat n)
  | XDiscard -> "D" | XReject -> "J" | XPass -> "P" | XBreak -> "B"
let show_entry = function
  | MAct (a, d) ->
      show_act a ^ "@" ^ (match d.d_md with Some m -> String.make 1 (Char.chr (Char.code 'A' + int_of_nat m)) | None -> "-")
      ^ (match d.d_cur with Some true -> "c" | Some false -> "n" | None -> "-")
  | MSentinel -> "S" | MPat a -> "P" ^ string_of_int (int_of_nat a)

(* ---- interpolation contexts:  macros = name:val,name:val (hex) | -     before = S;O;Pcap,cap;... | - ---- *)
let parse_macros m = if m = "-" then [] else
  List.map (fun kv -> match String.split_on_char ':' kv with [k; v] -> (unhex k, unhex v) | _ -> failwith "macro") (String.split_on_char ',' m)
let parse_before b = if b = "-" then [] else
  List.map (fun e -> if e = "S" then LSentinel else if e = "O" then LOther
             else LPat (List.map unhex (String.split_on_char ',' (String.sub e 1 (String.length e - 1)))))
    (String.split_on_char ';' b)
let hexlist l = if l = "-" then [] else List.map unhex (String.split_on_char ',' l)

let handle cmd args =
  match cmd, args with
  | "b64", [s] -> (match base64_decode (unhex s) with
                   | Some o -> "S " ^ hex (cview o) | None -> "N")
  | "b64raw", [s] -> (match base64_decode_raw (unhex s) with
                   | B64Ok o -> "S " ^ hex o | B64Err -> "N" | B64Bound -> "BOUND")
  | "qp", [s] -> "S " ^ hex (cview (quoted_printable_decode (unhex s)))
  | "r2047", [s] -> "S " ^ hex (cview (rfc2047_decode (unhex s)))
  | "pathjoin", [siz; d; f] ->
      (match pathjoin (nat_of_int (int_of_string siz)) (unhex d) (unhex f) with Some r -> "S" ^ hex r | None -> "N")
  | "pathslice", [siz; b; e; p] ->
      (match pathslice (unhex p) (nat_of_int (int_of_string siz)) (z_of_int (int_of_string b)) (z_of_int (int_of_string e)) with
       | Some r -> "S" ^ hex r | None -> "N")
  | "flags", [name] ->
      (match flags_parse (unhex name) with
       | None -> "E"
       | Some mf -> (match flags_str mf (nat_of_int 64) with Some s -> "F" ^ hex s | None -> "FE"))
  | "msgflags", [name; src; dst; extra] ->
      (* flags of the file name, then "flags" action letters, then the subdir transition *)
      let sd s = if s = "new" then SubNew else SubCur in
      (match flags_parse (unhex name) with
       | None -> "E"
       | Some mf -> (match flags_set_all mf (unhex extra) with
                     | None -> "E"
                     | Some mf' -> (match msgflags (sd src) (sd dst) mf' with Some s -> "F" ^ hex s | None -> "FE")))
  | "genname", [ts; pid; count; host; flags; existing] ->
      (* existing: comma separated hex names *)
      let ex = if existing = "-" then [] else List.map unhex (String.split_on_char ',' existing) in
      let exists_ n = List.mem n ex in
      (match genname_loop (nat_of_int 300) exists_ (n_of_int (int_of_string ts)) (n_of_int (int_of_string pid))
               (n_of_int (int_of_string count)) (unhex host) (unhex flags) (nat_of_int 256) O with
       | GenOk (n, t) -> "S" ^ hex n ^ " " ^ string_of_int (int_of_nat t)
       | GenTooLong -> "TOOLONG" | GenFuel -> "FUEL")
  | "main", stdin :: conf_ok :: syntax :: mds ->
      (* each maildir: "X" = maildir_open failed, else a string over n (no match) d (done) r (reject) e (error); "-" = empty *)
      let md s = if s = "X" then None else if s = "-" then Some [] else
        Some (List.init (String.length s) (fun i -> match s.[i] with 'n' -> MNoMatch | 'd' -> MDone | 'r' -> MReject | _ -> MErr)) in
      (match main false (stdin = "1") (conf_ok = "1") (syntax = "1") (List.map md mds) with
       | Usage -> "usage"
       | Exit (s, n) -> string_of_int (int_of_z s) ^ " " ^ string_of_int (int_of_nat n))
  | "rules", [tree; envbits] ->
      (* envbits: string of 0/1, atom i true iff envbits.[i] = '1' *)
      let rs = parse_rules tree in
      let env n = let i = int_of_nat n in i < String.length envbits && envbits.[i] = '1' in
      let m = (match run_rules rs env with None -> "NOMATCH" | Some l -> "MATCH " ^ String.concat " " (List.map show_entry l)) in
      let sp = (match spec_run rs env with None -> "NONE" | Some l -> "ACTS " ^ String.concat " " (List.map show_act l)) in
      let show_sum l = let (oth, d) = summary l in
        String.concat "," (List.map show_act oth) ^ "@" ^
        (match d with None -> "--" | Some d ->
           (match d.d_md with Some m -> String.make 1 (Char.chr (Char.code 'A' + int_of_nat m)) | None -> "-") ^
           (match d.d_cur with Some true -> "c" | Some false -> "n" | None -> "-")) in
      let msum = (match run_rules rs env with None -> "none" | Some l -> show_sum l) in
      let ssum = (match spec_run rs env with None -> "none" | Some l -> show_sum (entries_of l)) in
      let ((t1, t2), t3) = event_flags rs env in
      m ^ " | " ^ sp ^ " | " ^ msum ^ " | " ^ ssum ^ " | " ^ (if t1 then "T1" else "") ^ (if t2 then "T2" else "") ^ (if t3 then "T3" else "") ^ (if clean rs env then "clean" else "")
  | "interp", [tmpl; macros; before] ->
      (match interp { ic_before = parse_before before; ic_macros = parse_macros macros } (unhex tmpl) with
       | Some r -> "S" ^ hex r | None -> "E")
  | "argv", [strings; macros; before] ->
      (match exec_argv { ic_before = parse_before before; ic_macros = parse_macros macros } (hexlist strings) with
       | Some l -> "S" ^ String.concat "," (List.map hex l) | None -> "E")
  | "label", [existing; labels; macros; before] ->
      (match label_value { ic_before = parse_before before; ic_macros = parse_macros macros } (hexlist existing) (hexlist labels) with
       | Some r -> "S" ^ hex r | None -> "E")
  | "expand", [in_action; macros; str] ->
      let st = unhex str in
      (match expandmacros (nat_of_int (List.length st + 1)) (parse_macros macros) (in_action = "1") st with
       | Some (r, e) -> "S" ^ hex r ^ " " ^ string_of_int (int_of_nat e) | None -> "FUEL")
  | "flow", kind :: args ->
      let a = List.map unhex args in
      let e = (match kind, a with
        | "message", [root; sub; name] -> e_message_path root sub name
        | "delivered", [dest; sub; name] -> e_delivered_path dest sub name
        | "tmp", [tmpdir] -> e_tmp_template tmpdir
        | _ -> failwith "flow") in
      (match compute e with None -> "N" | Some s -> "S" ^ hex s)
  | "childtz", [tz; zones] ->
      let tz = if tz = "U" then None else Some (unhex (String.sub tz 1 (String.length tz - 1))) in
      let zones = if zones = "-" then [] else List.map (fun z -> if z = "E" then [] else unhex z) (String.split_on_char ',' zones) in
      (match child_tz tz zones with
       | None -> "REFUSED"
       | Some None -> "U"
       | Some (Some v) -> "S" ^ (if v = [] then "" else hex v))
  | "fold", [f; str] ->
      "S" ^ hex (fold_case (match f with "l" -> FoldLower | "u" -> FoldUpper | _ -> FoldNone) (unhex str))
  | "io", [a; ver; outs] ->
      let outs = if outs = "-" then [] else List.init (String.length outs) (fun i -> outcome_of_char outs.[i]) in
      let r = replay_action (action_of_string a) (nat_of_int (int_of_string ver)) outs in
      String.concat "," (List.map (fun (o, r) -> string_of_op o ^ "=" ^ char_of_outcome r) r.r_trace)
      ^ " " ^ string_of_int (int_of_nat r.r_status)
      ^ " S:" ^ show_file r.r_world Src ^ " D:" ^ show_file r.r_world Dst ^ " N:" ^ show_file r.r_world New
      ^ (if exactly_once r.r_world then " once" else " notonce")
  | "crash", [ver; tr] ->
      let tr = if tr = "-" then [] else List.map (fun t ->
          match String.split_on_char '=' t with
          | [o; r] -> (op_of_string o, outcome_of_char r.[0])
          | _ -> failwith "token") (String.split_on_char ',' tr) in
      (match crash_violation tr (nat_of_int (int_of_string ver)) with
       | None -> "OK"
       | Some (j, k) -> "BAD " ^ string_of_int (int_of_nat j) ^ " " ^ string_of_int (int_of_nat k))
  | "conc", kinds ->
      (* the finished states two or three parties can reach: where the message is and what each party reports *)
      let kind_of = function
        | "move" -> KAct (AMove false) | "movex" -> KAct (AMoveX false) | "write" -> KAct AWrite | "discard" -> KAct ADiscard
        | "extrename" -> KExtRename | "extdelete" -> KExtDelete | s -> failwith ("kind " ^ s) in
      let ks = List.map kind_of kinds in
      let n = List.length ks in
      let states = List.filter (fun s -> finished ks s) (states_of (reach_table ks)) in
      let summary s =
        let w = s.g_world in
        let where = ref [] in
        let look p nm tag = (match gget w (slot (nat_of_int p) nm) with
          | Some (Complete _) -> where := (tag ^ (if nm = Src then "" else string_of_int p)) :: !where
          | Some _ -> where := ("junk" ^ tag ^ string_of_int p) :: !where
          | None -> ()) in
        look 0 Src "S";
        for p = 0 to n - 1 do look p Dst "D"; look p New "N" done;
        let sts = List.map2 (fun k h -> match status_of k h with Some st -> string_of_int (int_of_nat st) | None -> "?") ks s.g_hist in
        (if !where = [] then "-" else String.concat "+" (List.rev !where)) ^ ":" ^ String.concat "," sts in
      String.concat " " (List.sort_uniq compare (List.map summary states))
  | "tp", [str] ->
      (* time_parse of a Date value; zone names: only GMT / UT / UTC are given an offset (0) *)
      (match time_parse (fun n -> if is_utc_name n then Some Z0 else None) (cview (unhex str)) with
       | Some t -> "OK " ^ string_of_int (int_of_z t)
       | None -> "ERR")
  | "confpats", [file; home] ->
      (* the patterns parse_config hands to the regcomp oracle when every one of them is accepted *)
      let pats = ref [] in
      let ok p = (pats := (hex p.p_src ^ ":" ^ (if p.p_icase then "1" else "0")) :: !pats; true) in
      ignore (parse_config (unhex home) ok (unhex file));
      if !pats = [] then "-" else String.concat "," (List.rev !pats)
  | "conf", file :: home :: rest ->
      (* config_parse: rest = the patterns regcomp rejects, as <hex>:<0|1 icase> *)
      let invalid = match rest with [] | ["-"] -> [] | [l] -> List.map (fun e ->
          match String.split_on_char ':' e with [h; i] -> (unhex h, i = "1") | _ -> failwith "inv") (String.split_on_char ',' l)
        | _ -> failwith "conf args" in
      let ok p = not (List.mem (p.p_src, p.p_icase) invalid) in
      let strs l = "[" ^ String.concat "," (List.map hex l) ^ "]" in
      let lu p = (if p.p_lcase then "l" else "") ^ (if p.p_ucase then "u" else "") in
      let b01 b = if b then "1" else "0" in
      let rec d = function
        | QBlock None -> "B()" | QBlock (Some e) -> "B(" ^ d e ^ ")"
        | QOr (l, r) -> "O(" ^ d l ^ "," ^ d r ^ ")" | QAnd (l, r) -> "A(" ^ d l ^ "," ^ d r ^ ")"
        | QMatch (c, a) -> "M(" ^ d c ^ "," ^ d a ^ ")" | QNeg e -> "N(" ^ d e ^ ")" | QAttachment e -> "T(" ^ d e ^ ")"
        | QBody p -> "b:" ^ lu p | QHeader (k, p) -> "h:" ^ lu p ^ strs k
        | QDate (f, gt, age) -> "d" ^ string_of_int (int_of_n f) ^ (if gt then ">" else "<") ^ string_of_int (int_of_n age)
        | QNew -> "n" | QOld -> "o" | QAll -> "a" | QStat p -> "s" ^ strs [p] | QCommand l -> "c" ^ strs l
        | QBreak -> "k" | QMove p -> "m" ^ strs [p] | QFlag s -> "f" ^ strs [s] | QFlags s -> "F" ^ strs [s] | QDiscard -> "x"
        | QLabel l -> "l" ^ strs l | QPass -> "p" | QReject -> "r" | QExec (s, b, l) -> "e" ^ b01 s ^ b01 b ^ strs l
        | QAttBlock b -> "K(" ^ d b ^ ")" | QAddHeader (k, v) -> "H[" ^ hex k ^ "," ^ hex v ^ "]" in
      (match parse_config (unhex home) ok (unhex file) with
       | Rejected -> "E"
       | OutOfFuel -> "FUEL"
       | Accepted cs -> "OK " ^ String.concat ";" (List.map (fun c -> "C" ^ strs c.c_paths ^ "{" ^ d c.c_expr ^ "}") cs))
  | "inspect", [loc; prefix; key; v; ms] ->
      (* expr_inspect for one entry: lines as hex, comma separated ("-" = no line) *)
      let mbw = if loc = "utf8" then mbw_utf8 else mbw_c in
      let pairs = if ms = "-" then [] else List.map (fun p ->
        match String.split_on_char ',' p with
        | [b; e] -> (nat_of_int (int_of_string b), nat_of_int (int_of_string e))
        | _ -> failwith "pair") (String.split_on_char ';' ms) in
      let lines = inspect_entry mbw (unhex prefix) (unhex key) (cview (unhex v)) pairs in
      if lines = [] then "-" else String.concat "," (List.map (fun l -> if l = [] then "e" else hex l) lines)
  | "scan", [str; bnd] ->
      (* index-level scanners (ScanDefs) against the list-level models on one C string *)
      let s = cview (unhex str) and b = cview (unhex bnd) in
      let len l = List.length l in
      let show = function Done x -> x | OOB -> "OOB" | NoFuel -> "FUEL" in
      let i = int_of_nat in
      let fh_ix = show (match ix_findheader s O with
        | Done None -> Done "N" | Done (Some ((k, vb), ve)) -> Done (Printf.sprintf "%d.%d.%d" (i k) (i vb) (i ve))
        | OOB -> OOB | NoFuel -> NoFuel) in
      let fh_l = (match findheader s with
        | FH (k, v, rest) -> let ve = len s - len rest - 1 in Printf.sprintf "%d.%d.%d" (len k) (ve - len v) ve
        | _ -> "N") in
      let uf_ix = show (match ix_unfoldheader s with Done l -> Done (hex l) | OOB -> OOB | NoFuel -> NoFuel) in
      let uf_l = hex (unfoldheader s) in
      let pb_ix = show (match ix_parseboundary s with
        | Done IPBNone -> Done "N" | Done IPBErr -> Done "E"
        | Done (IPB (bg, l)) -> Done (hex (List.filteri (fun j _ -> j >= i bg && j < i bg + i l) s))
        | OOB -> OOB | NoFuel -> NoFuel) in
      let pb_l = (match parseboundary s with PBNone -> "N" | PBErr -> "E" | PB x -> hex x) in
      let sp_ix = show (match ix_skipseparator s with Done j -> Done (string_of_int (i j)) | OOB -> OOB | NoFuel -> NoFuel) in
      let sp_l = string_of_int (len s - len (skipseparator s)) in
      let fuel = nat_of_int (len s + 2) in
      let fb_ix = if b = [] then "-" else show (match ix_findboundary fuel b s O false with
        | Done None -> Done "N" | Done (Some (p, t)) -> Done (Printf.sprintf "%d.%b" (i p) t)
        | OOB -> OOB | NoFuel -> NoFuel) in
      let fb_l = if b = [] then "-" else (match findboundary fuel b s false with
        | None -> "FUEL" | Some None -> "N" | Some (Some (p, t)) -> Printf.sprintf "%d.%b" (len s - len p) t) in
      let pairs = [("findheader", fh_ix, fh_l); ("unfoldheader", uf_ix, uf_l); ("parseboundary", pb_ix, pb_l);
                   ("skipseparator", sp_ix, sp_l); ("findboundary", fb_ix, fb_l)] in
      let bad = List.filter (fun (_, a, c) -> a <> c) pairs in
      if bad = [] then "OK" else String.concat " " (List.map (fun (n, a, c) -> n ^ ":" ^ a ^ "/" ^ c) bad)
  | "msg", file :: _name :: ops ->
      (match parse_message (unhex file) with
       | None -> "FUEL"
       | Some m0 ->
           let m = ref m0 in
           let out = List.map (fun op ->
             let arg = String.sub op 1 (String.length op - 1) in
             match op.[0] with
             | 'G' -> (match get_header (!m).m_headers (unhex arg) with
                       | None -> "GN"
                       | Some vs -> "G" ^ string_of_int (List.length vs) ^ String.concat "" (List.map (fun v -> "," ^ hex v) vs))
             | 'S' -> (match String.split_on_char ':' arg with
                       | [k; v] -> m := { !m with m_headers = set_header (!m).m_headers (unhex k) (unhex v) }; "S"
                       | _ -> "?")
             | 'W' -> let (b, m') = message_write !m in m := m'; "W" ^ hex b
             | 'B' -> (match get_body !m with BOk b -> "B" ^ hex b | BNull -> "BN" | BFuel -> "BFUEL")
             | 'A' -> (match get_attachments !m with
                       | AErr -> "AN" | AFuel -> "AFUEL"
                       | AOk l -> "A" ^ string_of_int (List.length l) ^ String.concat "" (List.map (fun a ->
                             let (b, _) = message_write a in
                             "," ^ hex b ^ ";" ^ (match get_body a with BOk b -> hex b | BNull -> "N" | BFuel -> "FUEL")) l))
             | _ -> "?") ops in
           String.concat " " out)
  | _ -> "ERR unknown command " ^ cmd

let () =
  try
    while true do
      let line = input_line stdin in
      match String.split_on_char ' ' (String.trim line) with
      | [] | [""] -> print_string "\n"
      | cmd :: args -> print_string (handle cmd args); print_char '\n'
    done
  with End_of_file -> ()
