(* C06 - dry run predicts the real run and its explanations are true.
   The printer and the executor consume the same interpolated match list (mdsort.c main: one list, then
   matches_inspect, then - unless -d - matches_exec); in the model both are functions of that list.
   Proved: the "path -> destination" lines of the dry run are exactly the actions executed, in order;
   a message with no action prints nothing; the recorded non-empty matches of every matcher in front of
   an action are all printed, two lines each; for a match inside one line the quoted line is the line of
   the value containing the match (leading blanks removed, never beyond the match: fix for F-08), the ^
   stands in the display column where the match begins and the $ in the last column of the match, for
   every character decoder that decodes the characters of that line independently of what follows.
   One column wide matches print ^$ (the two markers cannot share a column): stated separately.
   Not covered: matches spanning a newline (the quoted line cannot show them). *)
From MD Require Import Bytes Generated InspectDefs InspectProofs.

Theorem C06_same_actions : forall mbw path l pending,
  map fst (dry_blocks mbw path l pending) = map (fun w => path ++ arrow ++ w) (executed l).
Proof. exact dry_actions_are_executed. Qed.
Print Assumptions C06_same_actions.

Theorem C06_lines_are_blocks : forall mbw path l pending,
  dry_lines mbw path l pending = flat_map (fun b => fst b :: snd b) (dry_blocks mbw path l pending).
Proof. exact dry_lines_blocks. Qed.
Print Assumptions C06_lines_are_blocks.

Theorem C06_not_listed_not_touched : forall mbw path l pending, executed l = [] -> dry_lines mbw path l pending = [].
Proof. exact nothing_listed_nothing_done. Qed.
Print Assumptions C06_not_listed_not_touched.

Theorem C06_all_matches_shown : forall mbw path l1 p k v ms l2 w l3 pending,
  forallb (fun d => negb (is_action d)) l2 = true ->
  incl (inspect_entry mbw p k v ms) (dry_lines mbw path (l1 ++ DMatcher p k v ms :: l2 ++ DAction w :: l3) pending).
Proof. exact matches_before_action_shown. Qed.
Print Assumptions C06_all_matches_shown.

Theorem C06_two_lines_per_nonempty_match : forall mbw prefix key val ms pindent printkey,
  length (inspect_loop mbw prefix key val pindent printkey ms) = (2 * length (filter nonempty ms))%nat.
Proof. exact inspect_loop_length. Qed.
Print Assumptions C06_two_lines_per_nonempty_match.

Theorem C06_marker_columns : forall mbw pre lead pcs mcs post tail pindent,
  (pre = [] \/ exists p', pre = p' ++ [10%N]) ->
  forallb isblank lead = true ->
  chars_ok mbw pcs -> chars_ok mbw mcs -> mcs <> [] ->
  (match text pcs with [] => True | c :: _ => isblank c = false end) ->
  nonl (lead ++ text pcs ++ text mcs ++ post) = true ->
  (tail = [] \/ exists t', tail = 10%N :: t') ->
  let val := pre ++ lead ++ text pcs ++ text mcs ++ post ++ tail in
  let b := (length pre + length lead + length (text pcs))%nat in
  let e := (b + length (text mcs))%nat in
  inspect_match mbw pindent val b e =
  mkshown (text pcs ++ text mcs ++ post) (pindent + twidth pcs) (twidth mcs - 2).
Proof. exact inspect_match_spec. Qed.
Print Assumptions C06_marker_columns.

Theorem C06_marker_line : forall sh,
  nth_error (marker_line sh) (sh_indent sh) = Some 94%N /\
  nth_error (marker_line sh) (sh_indent sh + 1 + sh_gap sh) = Some 36%N /\
  length (marker_line sh) = (sh_indent sh + sh_gap sh + 2)%nat /\
  (forall i, (i < length (marker_line sh))%nat -> i <> sh_indent sh -> i <> (sh_indent sh + 1 + sh_gap sh)%nat ->
             nth_error (marker_line sh) i = Some 32%N).
Proof. exact marker_columns. Qed.
Print Assumptions C06_marker_line.

(* the decoders used by the correspondence meet the contract on the generated character classes *)
Theorem C06_ascii_c : forall c, ((32 <=? c) && (c <=? 126))%N = true -> is_char mbw_c [c] 1.
Proof. exact ascii_char_c. Qed.
Print Assumptions C06_ascii_c.
Theorem C06_high_c : forall c, (128 <=? c)%N = true -> is_char mbw_c [c] 1.
Proof. exact high_byte_char_c. Qed.
Print Assumptions C06_high_c.
Theorem C06_ascii_utf8 : forall c, ((32 <=? c) && (c <=? 126))%N = true -> is_char mbw_utf8 [c] 1.
Proof. exact ascii_char_utf8. Qed.
Print Assumptions C06_ascii_utf8.

(* non-vacuity: value "Re:\n   say hello world", match "hello" = [11,16), indentation 9 *)
Example C06_example :
  inspect_match mbw_c 9 (ascii [82;101;58;10;32;32;32;115;97;121;32;104;101;108;108;111;32;119;111;114;108;100]%nat) 11 16
  = mkshown (ascii [115;97;121;32;104;101;108;108;111;32;119;111;114;108;100]%nat) 13 3.
Proof. vm_compute. reflexivity. Qed.
Print Assumptions C06_example.

(* a match that begins inside the leading blanks: the quoted line begins with the match (F-08 fixed) *)
Example C06_example_leading_blanks :
  inspect_match mbw_c 9 (ascii [32;32;32;104;101;108;108;111]%nat) 2 8 = mkshown (ascii [32;104;101;108;108;111]%nat) 9 4.
Proof. vm_compute. reflexivity. Qed.
Print Assumptions C06_example_leading_blanks.
