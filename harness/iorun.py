"""Scenario corpus, interposed runs, trace normalisation and tree monitors shared by C01 / C02 / C17."""
import os, re, shutil
import common, mdrun
from common import hexs

SHIM = os.path.join(common.VERIF, 'shim', 'libvfio.so')
PIN = {'VFIO_TIME': '1700000000', 'VFIO_PID': '4242', 'VFIO_HOST': 'pinned'}

# errno a call can legitimately exhibit (quick tier uses the first of each list)
ERRNOS = {
    'fopen': ['EACCES'], 'opendir': ['EACCES', 'EMFILE'], 'readdir': ['EIO'], 'closedir': ['EIO'],
    'openat': ['ENOSPC', 'EACCES', 'EMFILE'], 'open': ['EMFILE', 'EACCES'], 'read': ['EIO', 'EINTR'], 'write': ['ENOSPC', 'EINTR', 'EIO'],
    'fsync': ['EIO', 'ENOSPC'], 'close': ['EIO'], 'renameat': ['EACCES', 'ENOSPC', 'ENOENT'], 'unlinkat': ['EACCES', 'ENOENT', 'EIO'], 'unlink': ['EACCES'],
    'mkdir': ['ENOSPC', 'EACCES'], 'mkdtemp': ['EACCES', 'ENOSPC'], 'mkstemp': ['ENOSPC', 'EMFILE'], 'rmdir': ['EACCES'],
    'fstatat': ['EACCES'], 'stat': ['EACCES'], 'utimensat': ['EPERM'], 'dup': ['EMFILE'], 'lseek': ['EIO'], 'fdopen': ['ENOMEM'],
    'fprintf': ['ENOSPC', 'EIO'], 'fflush': ['ENOSPC', 'EIO'], 'fclose': ['EIO', 'ENOSPC'], 'fork': ['EAGAIN'], 'waitpid': ['ECHILD'],
}
SHORTABLE = ('read', 'write')


class Scen:
    """One scenario: messages (marker-tagged), a rule, cross-device flag, stdin flag."""

    def __init__(self, sid, rule, msgs, xdev=False, stdin=False, big=False, two_maildirs=False, rnd=5):
        self.sid, self.rule, self.msgs, self.xdev, self.stdin, self.big, self.rnd = sid, rule, msgs, xdev, stdin, big, rnd
        self.two = two_maildirs

    def describe(self):
        return {'id': self.sid, 'rule': self.rule, 'messages': [(s, n) for s, n, _ in self.msgs], 'xdev': self.xdev, 'stdin': self.stdin}

    def build(self):
        sb = mdrun.Sandbox()
        src = sb.maildir('src')
        sb.maildir('dst')
        sb.maildir('other')
        rule = self.rule.replace('DST', os.path.join(sb.root, 'dst')).replace('OTHER', os.path.join(sb.root, 'other'))
        if self.stdin:
            conf = 'stdin {\n match all %s\n}\n' % rule
        else:
            conf = 'maildir "%s" {\n match all %s\n}\n' % (src, rule)
            for sub, name, content in self.msgs:
                sb.add(src, sub, content, name=name, mtime=1500000000)
        cp = sb.write_conf(conf)
        return sb, cp

    def run(self, plan=None, extra_env=None, timeout=30, wrapper=None):
        sb, cp = self.build()
        log = os.path.join(sb.root, 'trace.log')
        env = dict(PIN)
        env.update({'VFIO_LOG': log, 'VFIO_ROOT': sb.root, 'VFIO_RANDOM': str(self.rnd)})
        if self.xdev:
            env['VFIO_XDEV'] = self.xdev if isinstance(self.xdev, str) else '1'
        if plan:
            env['VFIO_PLAN'] = plan
        if extra_env:
            env.update(extra_env)
        args = ['-'] if self.stdin else []
        stdin = self.msgs[0][2] if self.stdin else None
        rc, out, err = sb.run(args, conf=cp, stdin=stdin, env=env, preload=SHIM, timeout=timeout, wrapper=wrapper)
        trace = []
        if os.path.exists(log):
            with open(log, 'r', errors='replace') as f:
                trace = [l.rstrip('\n') for l in f]
        tree = {}
        for md in ('src', 'dst', 'other'):
            for (sub, n), b in sb.snapshot(os.path.join(sb.root, md), with_mtime=True).items():
                tree[(md, sub, n)] = b
        tmpleft = sorted(os.listdir(sb.tmp))
        sb.cleanup()
        return rc, err, trace, tree, tmpleft


def marker(i):
    return b'MARKER-%04d' % i


def make_msgs(n, big=False, with_label=False):
    out = []
    for i in range(n):
        hdr = b'To: user%d@example.com\nSubject: message %d\n' % (i, i)
        if with_label and i % 2 == 0:
            hdr += b'X-Label: old\n'
        body = marker(i) + b'\nline two\n'
        if big:
            body += (b'x' * 70 + b'\n') * 400            # > one stdio buffer (28 KiB)
        sub = 'new' if i % 2 == 0 else 'cur'
        name = '1500000000.%d_1.h' % i + (':2,S' if sub == 'cur' else '')
        out.append((sub, name, hdr + b'\n' + body))
    return out


def corpus(tier):
    S = []
    k = 0
    rules = [
        ('move', 'move "DST"'), ('flag', 'flag !new'), ('flags', 'flags "T"'), ('label', 'label "L"'),
        ('addheader', 'add-header "X-Added" "v"'), ('discard', 'discard'), ('label_move', 'label "L" move "DST"'),
        ('move_flag', 'move "DST" flag !new'), ('addheader_flag', 'add-header "X-A" "b" flag new'),
        # two rewrites of the same message in one rule, and a rewrite after a move
        ('label_addheader', 'label "L" add-header "X-Added" "v"'), ('addheader_twice_move', 'add-header "X-A" "1" add-header "X-B" "2" move "DST"'),
        ('move_label', 'move "DST" label "L"'),
        # a rule kept by pass, then a rule whose CONDITION does I/O (stat for the file date, fork / waitpid for the command): a failure
        # there is a failure of the run like any other
        ('label_pass_datemove', 'label "L" pass\n match date modified > 1 seconds move "DST"'),
        ('addheader_pass_commandmove', 'add-header "X-A" "b" pass\n match command "true" move "DST"'),
        # commands among the actions: fork / waitpid (and the descriptors of exec stdin) are I/O calls like the others
        ('exec_move', 'exec "true" move "DST"'), ('label_execstdin', 'label "L" exec stdin { "sh" "-c" "cat >/dev/null" }'),
    ]
    for rid, rule in rules:
        for xdev in (False, True):
            if xdev and rid in ('label', 'addheader', 'discard', 'flags', 'label_addheader', 'label_pass_datemove', 'addheader_pass_commandmove', 'label_execstdin'):
                continue
            for nmsg, big in ((1, False), (2, False)) if tier == 'quick' else ((1, False), (2, False), (3, False), (1, True)):
                k += 1
                S.append(Scen('%s%s-%d%s' % (rid, '-xdev' if xdev else '', nmsg, '-big' if big else ''), rule,
                              make_msgs(nmsg, big=big, with_label=(rid.startswith('label'))), xdev=xdev, big=big, rnd=5 + k))
    # a move across file systems followed, in the same run, by moves / renames that stay on one file system (they must remain
    # plain renames: the second and third message contain a NUL byte, which only a rename carries over - F-10a)
    for rid, rule in (('move', 'move "DST"'), ('move_flag', 'move "DST" flag !new')):
        msgs = make_msgs(3)
        # only the message in new/ (walked first) is on another file system; the two in cur/ carry the NUL
        msgs = [msgs[0]] + [('cur', '1500000000.%d_1.h:2,S' % i, content.replace(b'line two', b'line\0two')) for i, (sub, name, content) in enumerate(msgs[1:], 1)]
        S.append(Scen('%s-xdevfirst-3' % rid, rule, msgs, xdev='name:1500000000.0_1.h', rnd=77))
    # stdin delivery with and without rewriting
    for rid, rule in (('stdin_move', 'move "DST"'), ('stdin_label_move', 'label "L" move "DST"'), ('stdin_discard', 'discard')):
        for xdev in (False, True):
            if xdev and rid == 'stdin_discard':
                continue
            for big in ((False,) if tier == 'quick' else (False, True)):
                S.append(Scen('%s%s%s' % (rid, '-xdev' if xdev else '', '-big' if big else ''), rule, make_msgs(1, big=big), xdev=xdev, stdin=True, big=big))
    return S


# ---- trace parsing ------------------------------------------------------------------------------------
LINE = re.compile(r'^(\d+) (\w+)(?: (.*?))? = (.*)$')


def parse_trace(lines):
    """-> list of dict(k, call, args, res, ok, err)"""
    out = []
    for l in lines:
        m = LINE.match(l)
        if not m:
            if l.endswith('KILLED'):
                out.append({'k': int(l.split()[0]), 'call': 'KILLED', 'args': '', 'res': '', 'ok': True, 'err': None})
            continue
        k, call, args, res = int(m.group(1)), m.group(2), m.group(3) or '', m.group(4)
        parts = res.split()
        failed = parts[0] in ('-1', 'NULL') and len(parts) > 1 or (call in ('fflush', 'fclose') and parts[0] != '0')
        if call == 'readdir' and res == 'NULL':
            failed = False
        if call == 'waitpid':
            failed = parts[0] == '-1'
        out.append({'k': k, 'call': call, 'args': args, 'res': res, 'ok': not failed, 'err': parts[1] if failed and len(parts) > 1 else None})
    return out


def short_transfer(call):
    if call['call'] == 'write' and call['ok']:
        a = call['args'].split()
        try:
            return int(call['res'].split()[0]) < int(a[-1])
        except ValueError:
            return False
    return False


# ---- normalisation of the action phase into model ops ------------------------------------------------
def action_calls(calls):
    """The calls mdsort issues for the (single) message between reading it and asking readdir for
    the next entry; plus the path under which the message was opened."""
    start = None
    cur = None
    for idx, c in enumerate(calls):
        if c['call'] == 'openat' and 'RDONLY' in c['args'] and c['ok'] and cur is None:
            a = c['args'].split(' ')
            cur = a[0] + '/' + ' '.join(a[1:-1])
        elif cur is not None and c['call'] == 'read' and c['args'] == cur:
            start = idx + 1
        elif cur is not None and start is not None and c['call'] != 'read':
            break
    if cur is None or start is None:
        return None, []
    out = []
    for c in calls[start:]:
        if c['call'] == 'readdir':
            break
        out.append(c)
    return cur, out


def segments(calls, stdin=False):
    """Normalise the action phase of a single-message run into model segments:
    list of (action_token, ver, [(op_token, outcome_char)]).  Calls outside the model vocabulary
    (closes of read-only message descriptors, closedir) are dropped."""
    cur, acts = action_calls(calls)
    if cur is None:
        return []
    segs = []
    seg = None
    ver = 0
    rdonly_opened = {cur}

    def end_seg():
        nonlocal seg, cur, ver
        if seg is None:
            return
        if seg['pw'] is not None:
            seg['ops'].append(('Write.%s.%d' % (seg['role'], seg['v']), 'O' if seg['pw'] else 'F'))
            seg['pw'] = None
        ops = seg['ops']
        kind = seg['kind']
        if kind == 'move':
            x = any(t == 'Rename.S.D' and o == 'X' for t, o in ops)
            token = 'move' + ('x' if x else '') + ('s' if stdin else '')
            moved = any(t == 'Rename.S.D' and o == 'O' for t, o in ops) or any(t == 'Unlink.S' and o == 'O' for t, o in ops)
            if moved and seg['created']:
                cur = seg['created']
        elif kind == 'write':
            token = 'write'
            if any(t == 'Unlink.S' and o == 'O' for t, o in ops) and seg['created']:
                cur = seg['created']; 
                segs.append((token, ver, ops)); ver = 1; seg = None
                return
        else:
            token = 'discard'
        segs.append((token, ver, ops))
        seg = None

    def flush_pw():
        if seg is not None and seg['pw'] is not None:
            seg['ops'].append(('Write.%s.%d' % (seg['role'], seg['v']), 'O' if seg['pw'] else 'F'))
            seg['pw'] = None

    for c in acts:
        call, args = c['call'], c['args']
        o = 'O' if c['ok'] else ('X' if c['err'] == 'EXDEV' else 'F')
        if call == 'opendir':
            end_seg()
            seg = {'kind': 'move', 'ops': [('Opendir', o)], 'created': None, 'role': 'D', 'pw': None, 'v': ver}
        elif call == 'openat' and 'CREAT|EXCL' in args:
            if not c['ok'] and c['err'] == 'EEXIST':
                continue
            if seg is None or seg['created'] is not None or seg['kind'] != 'move':
                end_seg()
                seg = {'kind': 'write', 'ops': [], 'created': None, 'role': 'N', 'pw': None, 'v': 1}
            a = args.split(' ')
            if c['ok']:
                # (a failed creation creates nothing: a later close of that NAME is the message's own descriptor,
                # which can carry the same name when the counter is pinned and an earlier rewrite produced it)
                seg['created'] = a[0] + '/' + ' '.join(a[1:-1])
            seg['ops'].append(('Creat.%s' % seg['role'], o))
        elif call == 'openat' and 'RDONLY' in args:
            if seg is not None and seg['kind'] == 'write':
                flush_pw()
                seg['ops'].append(('OpenR.N', o))
                a = args.split(' ')
                rdonly_opened.add(a[0] + '/' + ' '.join(a[1:-1]))
        elif call == 'unlinkat':
            if seg is None:
                if args == cur:
                    seg = {'kind': 'discard', 'ops': [('Unlink.S', o)], 'created': None, 'role': 'S', 'pw': None, 'v': ver}
                    end_seg()
                continue
            flush_pw()
            if args == cur:
                seg['ops'].append(('Unlink.S', o))
            elif args == seg['created']:
                seg['ops'].append(('Unlink.%s' % seg['role'], o))
        elif seg is None:
            continue
        elif call == 'fstatat':
            seg['ops'].append(('Stat.S', o))
        elif call == 'renameat':
            seg['ops'].append(('Rename.S.D', o))
        elif call == 'dup':
            seg['ops'].append(('Dup', o))
        elif call == 'fdopen':
            seg['ops'].append(('Fdopen', o))
        elif call == 'fprintf':
            seg['pw'] = c['ok'] if seg['pw'] is None else (seg['pw'] and c['ok'])
        elif call == 'fflush':
            flush_pw(); seg['ops'].append(('Flush.%s.%d' % (seg['role'], seg['v']), o))
        elif call == 'fsync':
            flush_pw(); seg['ops'].append(('Fsync.%s' % seg['role'], o))
        elif call == 'fclose':
            flush_pw(); seg['ops'].append(('Fclose.%s' % seg['role'], o))
        elif call == 'closedir':
            seg['closed_dir'] = True
        elif call == 'close':
            # closes of read-only message descriptors are outside the model: in a move segment they come
            # after maildir_close(dst); in a write segment after the read-only re-open
            if seg['created'] is not None and args == seg['created'] and not seg.get('closed_dir') \
               and not any(t == 'OpenR.N' for t, _ in seg['ops']):
                flush_pw(); seg['ops'].append(('Close.%s' % seg['role'], o))
        elif call == 'utimensat':
            seg['ops'].append(('Utimens.D', o))
    end_seg()
    return segs


# ---- monitors on the final tree ------------------------------------------------------------------------
def versions(scen, baseline_tree):
    """marker -> set of complete contents the message may legitimately have"""
    vs = {}
    for i, (sub, name, content) in enumerate(scen.msgs):
        vs[marker(i)] = {content}
    if 'label' not in scen.rule and 'add-header' not in scen.rule:
        return vs                       # no rewriting action: the only legitimate content is the original, byte for byte
    for (md, sub, n), (b, mt) in baseline_tree.items():
        for mk in vs:
            if mk in b:
                vs[mk].add(b)
    return vs


def classify_tree(scen, tree, vs):
    """-> (copies: marker -> list of (loc, intact)), strays: list of loc)"""
    copies = {mk: [] for mk in vs}
    strays = []
    for loc, (b, mt) in tree.items():
        owner = [mk for mk in vs if mk in b]
        if owner:
            copies[owner[0]].append((loc, b in vs[owner[0]], b))
        else:
            strays.append((loc, len(b)))
    return copies, strays
