#!/bin/sh
# usage: verify_seeded.sh <patch.diff> <demo.sh>
# Confirms in scratch copies (outside /repo and /verif): patch applies, tree builds, the suite's PASS set
# is unchanged, the demo exits 0 on the unchanged tree and non-zero with the patch.
set -u
PATCH=$1; DEMO=$2
B=$(mktemp -d /tmp/seedbase-XXXXXX); M=$(mktemp -d /tmp/seedmut-XXXXXX)
trap 'rm -rf "$B" "$M"' EXIT
git -C /repo archive HEAD | tar -x -C "$B"
git -C /repo archive HEAD | tar -x -C "$M"
(cd "$M" && git init -q . 2>/dev/null; git apply "$PATCH") || { echo "RESULT patch does not apply"; exit 1; }
(cd "$B" && ./configure >/dev/null 2>&1 && make -j8 >/dev/null 2>&1) || { echo "RESULT base build failed"; exit 1; }
(cd "$M" && ./configure >/dev/null 2>&1 && make -j8 >/dev/null 2>&1) || { echo "RESULT mutant build failed"; exit 1; }
(cd "$B" && make -k test 2>&1 | grep '^PASS' | sort > "$B/pass.txt")
(cd "$M" && make -k test 2>&1 | grep '^PASS' | sort > "$M/pass.txt")
if cmp -s "$B/pass.txt" "$M/pass.txt"; then echo "suite: identical PASS set ($(wc -l < "$M/pass.txt"))"; else echo "RESULT suite differs"; diff "$B/pass.txt" "$M/pass.txt" | head; exit 1; fi
sh "$DEMO" "$B" >/dev/null 2>&1; rb=$?
sh "$DEMO" "$M" >/dev/null 2>&1; rm_=$?
echo "demo: base exit $rb, mutant exit $rm_"
if [ $rb -eq 0 ] && [ $rm_ -ne 0 ]; then echo "RESULT confirmed"; exit 0; else echo "RESULT demo does not discriminate"; exit 1; fi
