#!/usr/bin/env python3
"""Writes MANIFEST.json from the table below (kept here so that the manifest stays valid)."""
import json, os
HERE = os.path.dirname(os.path.dirname(os.path.abspath(__file__)))

CLAIMED = {
 'C16': dict(
   text='Coq theorems about the hand-written model of decode.c: base64_decode = RFC 4648 spec for every byte string, '
        'target bound branches unreachable, QP inverts every QP rendering and never fails, RFC 2047 total / raw on malformed '
        '(full factorisation theorem not proved: partial for that decoder). Model tied to the code by a differential run of the '
        'extracted model against decode.c (exhaustive <=4/<=6 over the 14-symbol alphabet + structured random, plain and ASan/UBSan builds).',
   note='Trusted: Coq kernel, gen_tables.py (Base64 alphabet, Pad64), ExtrOcamlBasic extraction, decode.h driver, C-locale ctype. '
        'Control flow of decode.c is modelled by hand and tied only by correspondence.',
   technique='Coq proof (induction over the input, finite sweeps lifted by forallb_forall) + extracted-model differential correspondence',
   ref='DESIGN 6 C16'),
}

ALL = ['C%02d' % i for i in range(1, 19)]

def main():
    checks = []
    for pid in ALL:
        if pid not in CLAIMED:
            continue
        c = CLAIMED[pid]
        checks.append({
            'property_id': pid,
            'quick_cmd': './check %s --tier quick' % pid,
            'thorough_cmd': './check %s --tier thorough' % pid,
            'evidence_file': 'evidence/%s.json' % pid,
            'replay_cmd_template': './check %s --replay {path}' % pid,
            'engine': 'coq-model+correspondence',
            'level_claimed': {'category': 'proof', 'text': c['text'], 'design_ref': c['ref']},
            'level_note': c['note'],
            'technique': c['technique'],
        })
    na = [{'property_id': p, 'reason': 'not claimed yet: the model/theorems/correspondence for this property are not built at this commit (see DESIGN.md section 11)'}
          for p in ALL if p not in CLAIMED]
    m = {
        'version': 1,
        'setup_cmd': './setup.sh',
        'hooks': {'guard': 'MDSORT_VERIF', 'enable': 'none needed: checks observe through public headers, LD_PRELOAD and the binary; no hook commits',
                  'baseline_off_cmd': 'cd /repo && ./configure >/dev/null && make -j8 >/dev/null && make test',
                  'source_commits': [], 'add_only': True},
        'engines': [{'name': 'coq-model+correspondence', 'path': 'check', 'serves_properties': sorted(CLAIMED),
                     'kind_free_text': 'Coq 8.16 theorems about hand-written Gallina models (coq/), tables regenerated from source (harness/gen_tables.py), '
                                       'extracted OCaml model (ocaml/) compared with the implementation built from /repo working tree (cdrv/, shim/)'}],
        'checks': checks,
        'not_applicable': na,
        'notes': 'Entry point ./check <id> --tier quick|thorough; VERIF_SEED honoured. known-findings.txt lists pinned defects.',
    }
    with open(os.path.join(HERE, 'MANIFEST.json'), 'w') as f:
        json.dump(m, f, indent=1)

if __name__ == '__main__':
    main()
