(* C01 - no message is lost or duplicated when an I/O operation fails.
   Statements only; proofs (finite sweeps lifted to all call indices) are in IOProofs.v. *)
From Coq Require Import List Bool Arith.
Import ListNotations.
From MD Require Import IODefs IOProofs IOSeqProofs.

(* For every action protocol (move by rename, move across file systems, maildir_write = label /
   add-header, discard; source in a maildir or the stdin spool), every version / mtime of the
   message, and a single failure (any failing outcome) at ANY call index k:
   (a)+(b) the message exists exactly once, intact, under one of the names the protocol touches and
           no other name is left behind (no empty or partial stray);
   (c)     if call k was issued and is a site whose failure mdsort reports, the status is non-zero;
   (d)     status 0 implies the final destination and content.
   [c01_check] is the boolean conjunction of these clauses (IOProofs.v). *)
Theorem C01_single_fault : forall a v m k r, v <= 1 -> m <= 1 -> r <> Ok ->
  c01_check a v m (single k r) k = true.
Proof. exact c01_single_fault. Qed.
Print Assumptions C01_single_fault.

(* a whole run: the messages are handled one after the other, call numbers run on; whichever call K of whichever
   message fails, EVERY message satisfies the clauses above (the one that was hit with its local index K - base, the
   others as in a fault-free run) *)
Theorem C01_whole_run : forall jobs K r, Forall wf_job jobs -> r <> Ok -> forall base, seq_check jobs (single K r) base K = true.
Proof. exact c01_sequence. Qed.
Print Assumptions C01_whole_run.

Theorem C01_whole_run_nofault : forall jobs, Forall wf_job jobs -> forall base,
  Forall (fun br => r_status (snd br) = 0) (run_seq jobs nofault base).
Proof. exact c01_sequence_nofault. Qed.
Print Assumptions C01_whole_run_nofault.

(* two faults: nothing is lost *)
Theorem C01_double_fault_noloss : forall a v m k1 r1 k2 r2, v <= 1 -> m <= 1 -> r1 <> Ok -> r2 <> Ok ->
  k1 < bound -> k2 < bound -> noloss_check a v m (double k1 r1 k2 r2) = true.
Proof. exact c01_double_fault_noloss. Qed.
Print Assumptions C01_double_fault_noloss.

(* runs depend only on the outcomes of the calls actually issued (at most [bound] per action) *)
Theorem C01_runs_depend_on_issued_calls : forall a v m O1 O2, v <= 1 ->
  (forall j, j < bound -> O1 j = O2 j) -> run_action a v m O1 = run_action a v m O2.
Proof. exact run_action_ext. Qed.
Print Assumptions C01_runs_depend_on_issued_calls.

(* a moved message keeps its modification time (fault-free; also C09) *)
Theorem C01_mtime_kept : forallb (fun a => forallb (fun v => mtime_kept a v 1 nofault) [0; 1]) all_actions = true.
Proof. exact mtime_sweep. Qed.
Print Assumptions C01_mtime_kept.

(* the full clause (c) is false of the faithful model at the tolerated sites (finding F-15):
   a failing fstatat on a cross-device move loses the mtime with status 0 *)
Lemma C01_refuted_tolerated_stat :
  let res := run_action (AMoveX false) 0 1 (single 1 Fail) in
  r_status res = 0 /\ mtime_kept (AMoveX false) 0 1 (single 1 Fail) = false.
Proof. exact mtime_lost_refuted. Qed.
Print Assumptions C01_refuted_tolerated_stat.

(* non-vacuity: a fault at the fsync of a cross-device move is reported and the original stays *)
Example C01_ex_fsync_fault :
  let res := run_action (AMoveX false) 0 1 (single 8 Fail) in
  r_status res = 1 /\ holds (r_world res) Src = true /\ absent (r_world res) Dst = true.
Proof. vm_compute. repeat split. Qed.
