(* C07 (part 2): index-level models of the NUL-terminated scanners of message.c.  A buffer is the
   byte list s followed by one terminating NUL: index (length s) reads 0, any index beyond it is
   an out-of-bounds access, which the models report as OOB instead of inventing a value.  Every
   read the C code performs is a [rd] here, in the order the C code performs it (strncmp and
   strchr/strspn read one byte at a time and stop at the first difference / NUL).  No proofs. *)
From MD Require Import Bytes Generated.
Local Open Scope N_scope.

Inductive res (A : Type) := Done (a : A) | OOB | NoFuel.
Arguments Done {A} a.
Arguments OOB {A}.
Arguments NoFuel {A}.

Definition rd (s : bytes) (i : nat) : option N :=
  if Nat.leb i (length s) then Some (nth i s 0) else None.

Definition bind {A B} (r : res A) (k : A -> res B) : res B :=
  match r with Done a => k a | OOB => OOB | NoFuel => NoFuel end.

Definition rdk {B} (s : bytes) (i : nat) (k : N -> res B) : res B :=
  match rd s i with Some c => k c | None => OOB end.

(* strncmp(&s[i], lit, strlen(lit)) == 0 *)
Fixpoint ix_prefix (s : bytes) (i : nat) (lit : bytes) : res bool :=
  match lit with
  | [] => Done true
  | l :: lr => rdk s i (fun c => if c =? l then (if c =? 0 then Done true else ix_prefix s (S i) lr) else Done false)
  end.

(* skipline: index after the next newline, or of the terminator *)
Fixpoint ix_skipline (fuel : nat) (s : bytes) (i : nat) : res nat :=
  match fuel with
  | O => NoFuel
  | S f => rdk s i (fun c => if c =? 0 then Done i else if c =? 10 then Done (S i) else ix_skipline f s (S i))
  end.

(* strchr(&s[i], ch) for ch <> 0: index of ch, or None when the terminator comes first *)
Fixpoint ix_strchr (fuel : nat) (s : bytes) (i : nat) (ch : N) : res (option nat) :=
  match fuel with
  | O => NoFuel
  | S f => rdk s i (fun c => if c =? ch then Done (Some i) else if c =? 0 then Done None else ix_strchr f s (S i) ch)
  end.

(* nspaces = strspn(&s[i], " \t"): the number of blanks *)
Fixpoint ix_nspaces (fuel : nat) (s : bytes) (i : nat) : res nat :=
  match fuel with
  | O => NoFuel
  | S f => rdk s i (fun c => if isblank c then bind (ix_nspaces f s (S i)) (fun n => Done (S n)) else Done O)
  end.

(* ---- findboundary ----------------------------------------------------------------------------------- *)
Fixpoint ix_findboundary (fuel : nat) (b s : bytes) (i : nat) (skip : bool) : res (option (nat * bool)) :=
  match fuel with
  | O => NoFuel
  | S f =>
      bind (if skip then ix_skipline (S (length s)) s i else Done i) (fun i1 =>
      rdk s i1 (fun c =>
      if c =? 0 then Done None else
      bind (ix_prefix s i1 [45; 45]) (fun p1 =>
      if negb p1 then ix_findboundary f b s i1 true else
      let i2 := (i1 + 2)%nat in
      bind (ix_prefix s i2 b) (fun p2 =>
      if negb p2 then ix_findboundary f b s i2 true else
      let i3 := (i2 + length b)%nat in
      bind (ix_prefix s i3 [45; 45]) (fun p3 =>
      let i4 := if p3 then (i3 + 2)%nat else i3 in
      rdk s i4 (fun c4 =>
      if c4 =? 10 then Done (Some (i1, p3)) else ix_findboundary f b s i4 true))))))
  end.

(* ---- findheader: (end of key, start of value, end of value); the two ends are overwritten with NUL --- *)
Fixpoint ix_key (fuel : nat) (s : bytes) (i : nat) : res (option nat) :=
  match fuel with
  | O => NoFuel
  | S f => rdk s i (fun c => if c =? 58 then Done (Some i)
                             else if (c =? 0) || isspace c then Done None
                             else ix_key f s (S i))
  end.

Fixpoint ix_val (fuel : nat) (s : bytes) (i : nat) : res (option nat) :=
  match fuel with
  | O => NoFuel
  | S f =>
      bind (ix_strchr (S (length s)) s i 10) (fun p =>
      match p with
      | None => Done None
      | Some j =>
          bind (ix_nspaces (S (length s)) s (S j)) (fun n =>
          match n with
          | O => Done (Some j)
          | S _ => ix_val f s (j + n + 1)%nat
          end)
      end)
  end.

Definition ix_findheader (s : bytes) (i : nat) : res (option (nat * nat * nat)) :=
  bind (ix_key (S (length s)) s i) (fun k =>
  match k with
  | None => Done None
  | Some kend =>
      (* *ks->s_end = 0 : a write at kend *)
      bind (ix_nspaces (S (length s)) s (S kend)) (fun n =>
      let vbeg := (S kend + n)%nat in
      bind (ix_val (S (length s)) s vbeg) (fun v =>
      match v with
      | None => Done None
      | Some vend => Done (Some (kend, vbeg, vend))
      end))
  end).

(* ---- skipseparator ------------------------------------------------------------------------------------ *)
Definition ix_skipseparator (s : bytes) : res nat :=
  bind (ix_prefix s 0 mbox_separator) (fun p =>
  if negb p then Done O else
  bind (ix_strchr (S (length s)) s 0 10) (fun q =>
  match q with None => Done O | Some j => Done (S j) end)).

(* ---- unfoldheader: reads of the source, writes into dec (allocated strlen + 1 bytes) ---------------------- *)
(* returns the bytes written before the final NUL; a write at an index >= alloc is OOB *)
Definition wr {B} (alloc i : nat) (k : res B) : res B := if Nat.ltb i alloc then k else OOB.

Fixpoint ix_copy_line (fuel : nat) (s : bytes) (p e : nat) (alloc w : nat) : res (list N * nat) :=
  (* while (str != end) dec[i++] = *str++ *)
  match fuel with
  | O => NoFuel
  | S f => if Nat.eqb p e then Done ([], w)
           else rdk s p (fun c => wr alloc w (bind (ix_copy_line f s (S p) e alloc (S w)) (fun lw => Done (c :: fst lw, snd lw))))
  end.

Fixpoint ix_skip_tabs (fuel : nat) (s : bytes) (p : nat) : res nat :=
  match fuel with
  | O => NoFuel
  | S f => rdk s p (fun c => if c =? 9 then ix_skip_tabs f s (S p) else Done p)
  end.

Fixpoint ix_strlen (fuel : nat) (s : bytes) (p : nat) : res nat :=
  match fuel with
  | O => NoFuel
  | S f => rdk s p (fun c => if c =? 0 then Done p else ix_strlen f s (S p))
  end.

Fixpoint ix_unfold_loop (fuel : nat) (s : bytes) (p alloc w : nat) : res (list N) :=
  match fuel with
  | O => NoFuel
  | S f =>
      rdk s p (fun c =>
      if c =? 0 then wr alloc w (Done [])                 (* dec[i] = 0 *)
      else
        bind (ix_skip_tabs (S (length s)) s p) (fun p1 =>
        bind (ix_strchr (S (length s)) s p1 10) (fun q =>
        bind (match q with Some e => Done e | None => ix_strlen (S (length s)) s p1 end) (fun e =>
        bind (ix_copy_line (S (length s)) s p1 e alloc w) (fun lw =>
        rdk s e (fun c2 =>
        let p2 := if c2 =? 10 then S e else e in
        bind (ix_unfold_loop f s p2 alloc (snd lw)) (fun l' => Done (fst lw ++ l'))))))))
  end.

(* alloc = strlen(str) + 1 as strdup gives it *)
Definition ix_unfoldheader (s : bytes) : res (list N) :=
  bind (ix_strlen (S (length s)) s 0) (fun n =>
  bind (ix_strchr (S (length s)) s 0 10) (fun q =>
  match q with
  | None => Done (firstn n s)                           (* the strdup'ed copy as it is *)
  | Some _ => ix_unfold_loop (S (S (length s))) s 0 (S n) 0
  end)).

(* ---- parseboundary on the Content-Type value ----------------------------------------------------------- *)
Inductive ipb := IPBNone | IPBErr | IPB (beg len : nat).

Fixpoint ix_until (fuel : nat) (s : bytes) (i : nat) (stop : N) : res nat :=
  (* for (; *p != 0 && *p != stop; p++) *)
  match fuel with
  | O => NoFuel
  | S f => rdk s i (fun c => if (c =? 0) || (c =? stop) then Done i else ix_until f s (S i) stop)
  end.

Definition s_multipart_ : bytes := [109;117;108;116;105;112;97;114;116;47].
Definition s_boundary_ : bytes := [98;111;117;110;100;97;114;121;61;34].

Definition ix_parseboundary (s : bytes) : res ipb :=
  bind (ix_prefix s 0 s_multipart_) (fun p =>
  if negb p then Done IPBNone else
  bind (ix_until (S (length s)) s (length s_multipart_) 59) (fun i =>
  rdk s i (fun c =>
  if c =? 0 then Done IPBNone else
  bind (ix_nspaces (S (length s)) s (S i)) (fun n =>
  let j := (S i + n)%nat in
  bind (ix_prefix s j s_boundary_) (fun p2 =>
  if negb p2 then Done IPBNone else
  let b := (j + length s_boundary_)%nat in
  bind (ix_until (S (length s)) s b 34) (fun e =>
  rdk s e (fun c2 =>
  if negb (c2 =? 34) then Done IPBErr else
  if Nat.eqb (e - b) 0 then Done IPBErr else Done (IPB b (e - b))))))))).

(* ---- the attachment table: handles into a growable vector ---------------------------------------------- *)
(* VECTOR_CALLOC may move the whole table: conservatively, every allocation does, which bumps the
   generation; a pointer into the table is (generation, index) and may be dereferenced only while its
   generation is current.  [rederive] is the statement  msg = &parent->me_attachments[msgidx]. *)
Inductive ptree := PNode (kids : list ptree).

Record tbl := mktbl { t_gen : nat; t_size : nat }.
Definition handle := option (nat * nat).          (* None: the top-level message, which is not in the table *)

Definition valid (t : tbl) (h : handle) : bool :=
  match h with None => true | Some (g, _) => Nat.eqb g (t_gen t) end.

(* returns None as soon as a stale pointer is dereferenced *)
Fixpoint pa_walk (rederive : bool) (t : ptree) (msg : handle) (st : tbl) {struct t} : option tbl :=
  match t with
  | PNode kids =>
      if negb (valid st msg) then None else             (* message_get_header1(msg), msg->me_body *)
      (fix loop (kids : list ptree) (msg : handle) (st : tbl) {struct kids} : option tbl :=
        match kids with
        | [] => Some st
        | k :: r =>
            let st1 := mktbl (S (t_gen st)) (S (t_size st)) in              (* VECTOR_CALLOC *)
            let attach : handle := Some (t_gen st1, t_size st) in
            let msg1 := if rederive then match msg with Some (_, i) => Some (t_gen st1, i) | None => None end else msg in
            if negb (valid st1 msg1) then None else                          (* strlcpy(..., msg->me_path) *)
            match pa_walk rederive k attach st1 with
            | None => None
            | Some st2 => loop r msg1 st2
            end
        end) kids msg st
  end.
